#!/usr/bin/env python3
"""Systematic single-token / single-statement mutants of one glb source file.

usage: mutate.py <file relative to /repo> <test packages, comma separated> <properties, comma separated> [max survivors] [seed]

For every mutant (relational, boolean and arithmetic operator swaps, constant flips, deleted simple
statements) in a scratch worktree of /repo: build, then run the package's own tests. A mutant the
existing tests KILL is uninteresting. A mutant that SURVIVES them is applied to /repo, the listed
quick checks are run against it, and it is undone. Results go to /verif/mutation/<file>.json:
which survivors the checks report, which they do not (to be reviewed by hand: equivalent or a gap).
"""
import json, os, random, re, subprocess, sys, time

ENV = dict(os.environ, GOFLAGS="-mod=mod", GOPROXY="off", GOSUMDB="off", GOTOOLCHAIN="local")
rel, pkgs, props = sys.argv[1], sys.argv[2].split(","), sys.argv[3].split(",")
max_surv = int(sys.argv[4]) if len(sys.argv) > 4 else 40
rng = random.Random(int(sys.argv[5]) if len(sys.argv) > 5 else 1)
WT = "/tmp/mutwt"


def sh(cmd, cwd=None, timeout=900):
    try:
        r = subprocess.run(cmd, shell=True, cwd=cwd, env=ENV, capture_output=True, text=True, errors='replace', timeout=timeout)
        return r.returncode, r.stdout + r.stderr
    except subprocess.TimeoutExpired:
        return 124, "timeout"


def kill_in(d):
    """kill processes whose working directory is under this tool's own scratch worktree
    (a daemon.go mutant once left its test daemon listening on the test suite's fixed port)"""
    import glob, signal
    for c in glob.glob("/proc/[0-9]*/cwd"):
        try:
            if os.readlink(c).split(" ")[0].startswith(d + "/") or os.readlink(c).split(" ")[0] == d:
                os.kill(int(c.split("/")[2]), signal.SIGKILL)
        except OSError:
            pass


sh(f"git -C /repo worktree remove --force {WT}")
rc, out = sh(f"git -C /repo worktree add -q --detach {WT} HEAD")
assert rc == 0, out
src = open(os.path.join(WT, rel)).read()
lines = src.split("\n")

SWAPS = [(" < ", " <= "), (" <= ", " < "), (" > ", " >= "), (" >= ", " > "), (" == ", " != "), (" != ", " == "),
         (" && ", " || "), (" || ", " && "), (" + 1", " - 1"), (" - 1", " + 1"), ("+= 1", "-= 1"), ("-= 1", "+= 1"),
         ("++", "--"), ("--", "++"), (" true", " false"), (" false", " true"), ("[:0]", "[:1]"), (" + ", " - "), (" - ", " + "),
         ("= 0", "= 1"), ("(0)", "(1)"), ("(1)", "(0)"), ("(-1)", "(1)"), (" > 0", " > 1"), (" == 0", " == 1")]
muts = []
in_comment = False
for i, l in enumerate(lines):
    s = l.strip()
    if s.startswith("//") or s.startswith("import") or s.startswith("package") or not s:
        continue
    code = l.split("//")[0]
    for a, b in SWAPS:
        start = 0
        while True:
            j = code.find(a, start)
            if j < 0:
                break
            muts.append((i, f"{a.strip()} -> {b.strip()}", l[:j] + b + l[j + len(a):]))
            start = j + len(a)
    if s.startswith("!") or "(!" in code or " !" in code:
        j = code.find("!")
        if j >= 0 and code[j + 1:j + 2] != "=":
            muts.append((i, "drop !", l[:j] + l[j + 1:]))
    # deletion of a simple statement
    if not s.endswith("{") and not s.startswith("}") and not s.startswith("case ") and not s.startswith("default:") and \
       not s.startswith("func ") and not s.startswith("var ") and not s.startswith("type ") and not s.startswith("const ") and \
       not s.endswith(",") and not s.endswith("(") and s not in (")", "})", "}()") and ":=" not in s:
        muts.append((i, "delete statement", ""))
rng.shuffle(muts)
print(f"{len(muts)} candidate mutants of {rel}")

res = {"file": rel, "candidates": len(muts), "built": 0, "killed_by_existing_tests": 0, "survivors": []}
os.makedirs("/verif/mutation", exist_ok=True)
outp = "/verif/mutation/" + rel.replace("/", "_") + ".json"
pk = " ".join("./" + p for p in pkgs)
t00 = time.time()
for (i, what, newline) in muts:
    if len(res["survivors"]) >= max_surv or time.time() - t00 > 3 * 3600:
        break
    m = lines[:]
    if what == "delete statement":
        m[i] = ""
    else:
        m[i] = newline
    open(os.path.join(WT, rel), "w").write("\n".join(m))
    rc, out = sh(f"go build {pk} && go vet {pk}", cwd=WT, timeout=300)
    if rc != 0:
        continue
    res["built"] += 1
    t0 = time.time()
    rc, out = sh(f"go test -vet=off -count=1 -timeout 40s {pk}", cwd=WT, timeout=200)
    if rc != 0:
        # flaky timing tests: a second chance (not after a hang) before counting it as killed
        if time.time() - t0 > 30:
            res["killed_by_existing_tests"] += 1
            kill_in(WT)
            continue
        rc2, out2 = sh(f"go test -vet=off -count=1 -timeout 40s {pk}", cwd=WT, timeout=200)
        if rc2 != 0:
            res["killed_by_existing_tests"] += 1
            kill_in(WT)
            continue
    kill_in(WT)
    rc, diff = sh(f"git diff -- {rel}", cwd=WT)
    open("/tmp/mut.diff", "w").write(diff)
    rc, st = sh("git -C /repo status --porcelain")
    assert st.strip() == "", "/repo not clean: " + st
    rc, out = sh("git -C /repo apply /tmp/mut.diff")
    if rc != 0:
        continue
    entry = {"line": i + 1, "mutation": what, "original": lines[i].strip(), "mutated": (m[i].strip() or "(deleted)"), "checks": {}}
    try:
        for p in props:
            rc, out = sh(f"/verif/bin/simcheck -p {p} -tier quick", cwd="/verif", timeout=3600)
            cls = sorted({x.split("class=")[1].split(" ")[0] for x in out.splitlines() if x.startswith("violation:")})
            entry["checks"][p] = {"exit": rc, "classes": cls}
            if rc == 1:
                break  # reported: no need for the siblings
    finally:
        sh("git -C /repo checkout -- . && git -C /repo clean -fdq")
    entry["reported"] = any(c["exit"] == 1 for c in entry["checks"].values())
    res["survivors"].append(entry)
    print(f"line {i+1}: {what}: {'REPORTED ' + str([p for p,c in entry['checks'].items() if c['exit']==1]) if entry['reported'] else 'not reported ' + str({p:c['exit'] for p,c in entry['checks'].items()})} | {entry['original']} => {entry['mutated']}", flush=True)
    json.dump(res, open(outp, "w"), indent=1)
open(os.path.join(WT, rel), "w").write(src)
kill_in(WT)
sh(f"git -C /repo worktree remove --force {WT}")
res["reported"] = sum(1 for e in res["survivors"] if e["reported"])
res["not_reported"] = sum(1 for e in res["survivors"] if not e["reported"])
json.dump(res, open(outp, "w"), indent=1)
print(json.dumps({k: v for k, v in res.items() if k != "survivors"}))
