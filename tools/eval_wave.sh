#!/bin/bash
# usage: eval_wave.sh <suffix> [ids...]  - evaluates /tmp/wt-<id>-<suffix> seeds that are finished (NOTES.md present) and not stored yet
sfx=$1; shift
declare -A SIB=([C02]=C03 [C03]=C02 [C05]=C15 [C15]=C05 [C06]=C08 [C07]=C06 [C08]=C06 [C14]=C06 [C11]=C12 [C12]=C11 [C18]="" [C19]="" [C20]="")
ids=${@:-C02 C03 C05 C06 C07 C08 C11 C12 C14 C15 C18 C19 C20}
for p in $ids; do
  d=/tmp/wt-$p-$sfx
  [ -f $d/NOTES.md ] && [ -f $d/patch.diff ] || { echo "$p-$sfx: not ready"; continue; }
  [ -f /verif/seeded/$p-$sfx/meta.json ] && { echo "$p-$sfx: already stored"; continue; }
  /verif/tools/seed_eval.py $p-$sfx $p $d ${SIB[$p]} 2>&1 | grep -E '"confirmed"|exit|stored|NOT CONF' | cut -c1-300
done
