#!/bin/bash
# every registered quick check on the current tree; prints one line each and fails if any is not silent
rc=0
for p in C02 C03 C05 C06 C07 C08 C11 C12 C14 C15 C18 C19 C20; do
  out=$(/verif/bin/simcheck -p $p -tier quick 2>&1); r=$?
  echo "$p exit=$r $(echo "$out" | tail -1 | cut -c1-160)"
  [ $r -ne 0 ] && { rc=1; echo "$out" | grep -E "^violation|^VIOL|simcheck:" | head -5 | cut -c1-300; }
done
exit $rc
