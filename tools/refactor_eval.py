#!/usr/bin/env python3
"""Run the checks against a CORRECT refactoring produced by a sub-agent: every check must stay silent (exit 0).
usage: refactor_eval.py <name> <agent worktree> <property>..."""
import json, os, shutil, subprocess, sys, time
ENV = dict(os.environ, GOFLAGS="-mod=mod", GOPROXY="off", GOSUMDB="off", GOTOOLCHAIN="local")
name, wt, props = sys.argv[1], sys.argv[2].rstrip("/"), sys.argv[3:]
def sh(cmd, cwd=None, timeout=3600):
    r = subprocess.run(cmd, shell=True, cwd=cwd, env=ENV, capture_output=True, text=True, timeout=timeout)
    return r.returncode, r.stdout + r.stderr
patch = os.path.join(wt, "patch.diff")
assert os.path.getsize(patch) > 0
rc, st = sh("git -C /repo status --porcelain"); assert st.strip() == "", st
rc, out = sh(f"git -C /repo apply {patch}"); assert rc == 0, out
meta = {"name": name, "kind": "behaviour-preserving refactoring (must NOT be reported)", "results": {}}
try:
    rc, out = sh("go build ./... && go test -vet=off -count=1 -p 4 ./... 2>&1 | tail -12", cwd="/repo")
    meta["suite"] = "pass" if rc == 0 and "FAIL" not in out else out[-600:]
    for p in props:
        t0 = time.time()
        rc, out = sh(f"/verif/bin/simcheck -p {p} -tier quick", cwd="/verif")
        lines = [l for l in out.splitlines() if l.startswith(("VIOLATION", "violation:", "simcheck:", "KNOWN")) or " runs, " in l or " launches " in l]
        meta["results"][p] = {"exit": rc, "wall_s": round(time.time() - t0, 1), "lines": [l[:500] for l in lines][:6]}
        print(p, "exit", rc, "|", " || ".join(lines)[:1200])
        if rc == 2:
            print(out[-3000:])
finally:
    sh(f"git -C /repo apply -R {patch}")
    rc, st = sh("git -C /repo status --porcelain")
    if st.strip():
        sh("git -C /repo checkout -- . && git -C /repo clean -fdq")
dst = f"/verif/refactors/{name}"
os.makedirs(dst, exist_ok=True)
shutil.copy(patch, dst)
if os.path.exists(os.path.join(wt, "NOTES.md")):
    shutil.copy(os.path.join(wt, "NOTES.md"), dst)
json.dump(meta, open(os.path.join(dst, "meta.json"), "w"), indent=1)
print("suite:", meta["suite"][:200])
