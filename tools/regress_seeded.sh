#!/bin/bash
# Re-runs the current quick checks against every stored variant that still applies to /repo's HEAD
# (apply, run the check(s) that reported it when it was stored, undo). Prints one line per variant;
# exit 1 if a variant is no longer reported. Evidence files are overwritten: run tools/runall.sh afterwards.
cd /verif
rc=0
for d in seeded/*/; do
  n=$(basename $d)
  git -C /repo apply --check /verif/$d/patch.diff 2>/dev/null || { echo "$n skipped (patch applies to an earlier /repo commit)"; continue; }
  props=$(python3 -c "
import json;m=json.load(open('$d/meta.json'));print(' '.join(p for p,r in m['check_results'].items() if r['exit']==1))")
  [ -z "$props" ] && { echo "$n had no detecting check recorded"; rc=1; continue; }
  git -C /repo apply /verif/$d/patch.diff || { echo "$n apply failed"; rc=1; continue; }
  hit=""
  for p in $props; do
    bin/simcheck -p $p -tier quick >/tmp/regress.out 2>&1; r=$?
    [ $r -eq 1 ] && { hit="$p"; break; }
    last="$p exit $r"
  done
  git -C /repo checkout -- . ; git -C /repo clean -fdq
  if [ -n "$hit" ]; then echo "$n reported by $hit"; else echo "$n NOT REPORTED ($last)"; rc=1; fi
done
exit $rc
