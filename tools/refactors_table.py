#!/usr/bin/env python3
"""Rewrites the table of correct refactorings in DESIGN.md from refactors/*/meta.json."""
import glob, json, re
rows = []
for f in sorted(glob.glob('/verif/refactors/*/meta.json')):
    m = json.load(open(f))
    res = "; ".join(f"{p}: exit {r['exit']}" for p, r in m.get('results', {}).items())
    rows.append(f"| {m['name']} | {res} | {m.get('suite','')[:40]} | {m.get('applies_to','current /repo HEAD when evaluated')[:60]} |")
intro = """### Correct variants (must stay silent)

Twenty-two correct variants: twenty-one behaviour-preserving refactorings, each written by a sub-agent that saw only the property texts and a scratch worktree (40-280 changed lines), and one small one of my own (osutil4: MoveFile returns the error of os.Rename when the destination is a directory - written to confirm and then rule out a false alarm of the simulated Rename, section 14). First round: tasklane with a lane struct and flat selects, ProgressWriter with an atomic total, the filter with compacting list and computed masks, the JSON handler with head/tail and a line sink, Text/Nano handlers with a pooled encoder, httpd with typed trie children and store cells, Relay as a span type, CopyFile as a copyPair, daemon with NotifyContext and a registry. Second round (names ending in 2, after the append/copy instrumentation and the blocked-push oracle were added): the filter as an immutable snapshot behind an atomic.Pointer with lock-free lookups, tasklane without forwarding goroutines (one buffered channel per lane plus a token channel, workers scan all lanes under a mutex), ProgressWriter with an atomic total and a mutex-ordered notifier, the Nano handler with an encoder struct and size-classed buffer pools, httpd with typed trie nodes and a single Store.reset, CopyFile as a step list. Third round (names ending in 3, asked to use newer standard-library entry points): tasklane with per-lane structs, atomic flags and timers, Text/JSON handlers with immutable derivation and a shared output type, the filter on net/netip prefixes with a population bitmask, CopyFile with an O_EXCL fast path, ReadFrom and reported close errors (the simulated os.File had to learn ReadFrom/WriteTo for it: the first run was exit 2), ProgressWriter with a mutex-guarded total and a feed type, Relay as a per-call value with status recording centralised. Patches and notes are under `refactors/`. Every registered quick check was run against each: all exit 0, none exits 2 (the rewriter handled every construct they introduced).

| refactoring | checks | suite | patch applies to |
|---|---|---|---|
"""
table = intro + "\n".join(rows) + "\n"
p = '/verif/DESIGN.md'
s = open(p).read()
b, e = '<!-- refactors-begin -->', '<!-- refactors-end -->'
s = re.sub(re.escape(b) + '.*?' + re.escape(e), lambda m: b + '\n' + table + e, s, flags=re.S)
open(p, 'w').write(s)
print(len(rows), "rows")
