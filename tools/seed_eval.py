#!/usr/bin/env python3
"""Confirm a seeded change produced by a sub-agent and run the checks against it.

usage: seed_eval.py <name> <property> <agent worktree> [other properties to run too...]

1. fresh scratch worktree of /repo at HEAD: apply patch.diff, build, run the whole existing
   suite (must pass), add the demonstration (must FAIL), revert the patch (demo must PASS);
2. apply the patch to /repo itself, run the registered quick check(s), undo it straight away;
3. store patch, demonstration and meta.json under /verif/seeded/<name>/.
"""
import json, os, shutil, subprocess, sys, time

ENV = dict(os.environ, GOFLAGS="-mod=mod", GOPROXY="off", GOSUMDB="off", GOTOOLCHAIN="local")
name, prop, wt = sys.argv[1], sys.argv[2], sys.argv[3].rstrip("/")
others = sys.argv[4:]


def sh(cmd, cwd=None, timeout=1800):
    r = subprocess.run(cmd, shell=True, cwd=cwd, env=ENV, capture_output=True, text=True, timeout=timeout)
    return r.returncode, (r.stdout + r.stderr)


def kill_in(d):
    """kill processes whose cwd is under d (daemons leaked by a broken variant's tests)"""
    import glob, signal
    for c in glob.glob("/proc/[0-9]*/cwd"):
        try:
            if os.readlink(c).startswith(d):
                os.kill(int(c.split("/")[2]), signal.SIGKILL)
        except OSError:
            pass


meta = {"name": name, "property": prop, "agent_worktree": wt, "ran": []}
patch = os.path.join(wt, "patch.diff")
if not os.path.exists(patch) or os.path.getsize(patch) == 0:
    sys.exit("no patch.diff in " + wt)

# demo files: untracked files of the agent's worktree other than patch/notes
rc, out = sh("git status --porcelain --untracked-files=all", cwd=wt)
demos = [l[3:] for l in out.splitlines() if l.startswith("??") and not l[3:].startswith(("patch.diff", "NOTES.md")) and not l[3:].endswith((".orig", ".rej", ".test", ".out"))]
meta["demo_files"] = demos

ver = f"/tmp/ver-{name}"
sh(f"git -C /repo worktree remove --force {ver}")
shutil.rmtree(ver, ignore_errors=True)
rc, out = sh(f"git -C /repo worktree add -q --detach {ver} HEAD")
assert rc == 0, out
ok = True
try:
    rc, out = sh(f"git apply {patch}", cwd=ver)
    meta["patch_applies"] = rc == 0
    if rc != 0:
        print("PATCH DOES NOT APPLY", out)
        ok = False
    if ok:
        rc, out = sh("go build ./... && go vet ./... 2>&1 | tail -3; go build ./...", cwd=ver)
        meta["builds"] = rc == 0
        ok = ok and rc == 0
    if ok:
        # the baseline lists osutil TestWaitForInterrupt as flaky and the machine is loaded by
        # other work: up to 5 attempts, two clean passes required
        passes, attempts = 0, 0
        while passes < 2 and attempts < 5:
            attempts += 1
            rc, out = sh("go test -vet=off -count=1 -p 4 ./... 2>&1 | tail -15", cwd=ver)
            if rc == 0 and "FAIL" not in out:
                passes += 1
            else:
                meta["suite_output"] = out[-1500:]
        meta["suite_passes_with_change"] = passes == 2
        meta["suite_attempts"] = attempts
        meta["ran"].append(f"go test -vet=off -count=1 ./...  (with the change, without the demo: {passes} clean passes in {attempts} attempts)")
        ok = ok and passes == 2
    if ok:
        for d in demos:
            os.makedirs(os.path.dirname(os.path.join(ver, d)) or ver, exist_ok=True)
            shutil.copy(os.path.join(wt, d), os.path.join(ver, d))
        pkgs = sorted({"./" + (os.path.dirname(d) or ".") for d in demos if d.endswith("_test.go")})
        progs = sorted({"./" + os.path.dirname(d) for d in demos if d.endswith("main.go")})
        democmd = " && ".join([f"go test -vet=off -count=1 -run 'Demo|demo|Seed|ZZ|Zz' {p}" for p in pkgs] + [f"go run {p}" for p in progs]) or "true"
        meta["demo_cmd"] = democmd
        rc1, out1 = sh(democmd + " 2>&1 | tail -25", cwd=ver, timeout=900)
        fails_with = rc1 != 0 or "FAIL" in out1
        if not fails_with and pkgs:
            # maybe the demo tests have other names: run the whole package
            democmd = " && ".join(f"go test -vet=off -count=1 {p}" for p in pkgs)
            meta["demo_cmd"] = democmd
            rc1, out1 = sh(democmd + " 2>&1 | tail -25", cwd=ver, timeout=900)
            fails_with = rc1 != 0 or "FAIL" in out1
        meta["demo_fails_with_change"] = fails_with
        meta["demo_output_with_change"] = out1[-1200:]
        sh(f"git apply -R {patch}", cwd=ver)
        rc2, out2 = sh(democmd + " 2>&1 | tail -15", cwd=ver, timeout=900)
        meta["demo_passes_without_change"] = rc2 == 0 and "FAIL" not in out2
        meta["demo_output_without_change"] = out2[-600:]
        meta["ran"].append(democmd + "  (with the change: must fail; after git apply -R: must pass)")
        ok = fails_with and meta["demo_passes_without_change"]
finally:
    kill_in(ver)
    sh(f"git -C /repo worktree remove --force {ver}")
    shutil.rmtree(ver, ignore_errors=True)
meta["confirmed"] = ok
print(json.dumps({k: v for k, v in meta.items() if not k.startswith("demo_output") and k != "suite_output"}, indent=1))
if not ok:
    print("NOT CONFIRMED; outputs:", meta.get("suite_output", ""), meta.get("demo_output_with_change", ""), meta.get("demo_output_without_change", ""))

# run the checks against the change
rc, st = sh("git -C /repo status --porcelain")
assert st.strip() == "", "/repo is not clean: " + st
results = {}
rc, out = sh(f"git -C /repo apply {patch}")
assert rc == 0, out
try:
    for p in [prop] + others:
        t0 = time.time()
        rc, out = sh(f"/verif/bin/simcheck -p {p} -tier quick", cwd="/verif", timeout=3600)
        lines = [l for l in out.splitlines() if l.startswith(("VIOLATION", "violation:", "KNOWN", "simcheck:")) or " runs, " in l or " launches " in l]
        results[p] = {"exit": rc, "wall_s": round(time.time() - t0, 1), "lines": [l[:400] for l in lines][:8]}
        meta["ran"].append(f"bin/simcheck -p {p} -tier quick  (patch applied to /repo, undone afterwards) -> exit {rc}")
        print(p, "exit", rc, "|", " || ".join(results[p]["lines"])[:900])
finally:
    sh(f"git -C /repo apply -R {patch}")
    rc, st = sh("git -C /repo status --porcelain")
    if st.strip():
        sh("git -C /repo checkout -- . && git -C /repo clean -fdq")
meta["check_results"] = results
meta["detected_by"] = [p for p, r in results.items() if r["exit"] == 1]

if ok:
    dst = f"/verif/seeded/{name}"
    os.makedirs(dst, exist_ok=True)
    shutil.copy(patch, os.path.join(dst, "patch.diff"))
    for d in demos:
        t = os.path.join(dst, "demo", d)
        os.makedirs(os.path.dirname(t), exist_ok=True)
        shutil.copy(os.path.join(wt, d), t)
    if os.path.exists(os.path.join(wt, "NOTES.md")):
        shutil.copy(os.path.join(wt, "NOTES.md"), os.path.join(dst, "NOTES.md"))
        meta["needs_to_manifest"] = "see NOTES.md (written by the sub-agent that produced the change)"
    for k in ("demo_output_without_change",):
        meta.pop(k, None)
    json.dump(meta, open(os.path.join(dst, "meta.json"), "w"), indent=1)
    print("stored", dst)
