#!/usr/bin/env python3
"""Rewrites the table of independently produced variants at the end of DESIGN.md from seeded/*/meta.json."""
import glob, json, re
rows = []
for f in sorted(glob.glob('/verif/seeded/*/meta.json')):
    m = json.load(open(f))
    notes = ''
    try:
        n = open(f.replace('meta.json', 'NOTES.md')).read()
    except OSError:
        n = ''
    res = []
    for p, r in m.get('check_results', {}).items():
        cls = sorted({l.split('class=')[1].split(' ')[0] for l in r['lines'] if l.startswith('violation:')})
        res.append(f"{p}: " + ('**caught** (' + ', '.join(cls) + ')' if r['exit'] == 1 else ('silent' if r['exit'] == 0 else f"exit {r['exit']}")))
    files = sorted({l[6:].strip() for l in open(f.replace('meta.json', 'patch.diff')) if l.startswith('+++ b/')})
    rows.append(f"| {m['name']} | {m['property']} | {', '.join(files)} | {'; '.join(res)} | {m.get('history', '')} |")
metas = [json.load(open(f)) for f in sorted(glob.glob('/verif/seeded/*/meta.json'))]
noted = [m for m in metas if m.get('history')]
remarks_only = [m for m in noted if m['name'] in ('C12-l', 'C12-m')]
own = [m for m in metas if m['property'] in [p for p, r in m.get('check_results', {}).items() if r['exit'] == 1]]
summary = (f"{len(metas)} variants in {len({m['name'].split('-')[1] for m in metas})} waves (each wave: one sub-agent per claimed property, "
           f"a different hint about the kind of defect per wave). {len(metas) - len(noted) + len(remarks_only)} were reported by the checks as they stood when the variant arrived, "
           f"{len(noted) - len(remarks_only)} only after the strengthening described in the remarks column (every one re-run afterwards), none is left unreported. "
           f"{len(metas) - len(own)} are reported by the sibling check of the same world rather than by the check of the property they were aimed at (sequential defects of the filter aimed at C12 and reported by C11).\n\n")
table = summary + "| id | breaks | files | quick checks against it | remarks |\n|---|---|---|---|---|\n" + "\n".join(rows) + "\n"
p = '/verif/DESIGN.md'
s = open(p).read()
begin, end = '<!-- seeded-table-begin -->', '<!-- seeded-table-end -->'
if begin not in s:
    s += f"\n{begin}\n{end}\n"
s = re.sub(re.escape(begin) + '.*?' + re.escape(end), begin + '\n' + table + end, s, flags=re.S)
open(p, 'w').write(s)
print(table)
