#!/bin/sh
# background thorough sweep from a snapshot (vp run): builds the driver there and runs every claimed property
export GOFLAGS=-mod=mod GOPROXY=off GOSUMDB=off GOTOOLCHAIN=local
export VERIF_DIR=$PWD
[ -n "$VP_RUN_REPO" ] && export VERIF_REPO=$VP_RUN_REPO
(cd simgo && go build -o ../bin/simcheck ./cmd/simcheck) || exit 2
rc=0
for p in ${PROPS:-C06 C07 C08 C14 C19 C11 C12 C02 C03 C05 C15 C18 C20}; do
  echo "=== $p"; bin/simcheck -p $p -tier thorough; r=$?; echo "exit=$r"; [ $r -ne 0 ] && rc=$r
done
exit $rc
