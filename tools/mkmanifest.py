#!/usr/bin/env python3
"""Writes /verif/MANIFEST.json from the table below and validates it."""
import json, subprocess
ENV = "GOFLAGS=-mod=mod GOPROXY=off GOSUMDB=off GOTOOLCHAIN=local"
NA = {
 "C01": "pure function (With/WithGroup chain, record) -> bytes: no schedule, clock, fault or shared state in the claim; the failing case is one sequential call (DESIGN.md section 6)",
 "C04": "pure function (route table, method, path) -> (handler, params); its stateful residue (pooled Store) is claimed as C05",
 "C09": "pure function of (struct type, argv, environment, JSON text); sources are read once, sequentially, and no fault is part of the claim",
 "C10": "pure function of argv",
 "C13": "pure function (derivation chain, record) -> bytes, as C01 for the text format",
 "C16": "pure string function judged by a deterministic external shell",
 "C17": "pure string function",
}
PENDING = ["C20"]
SIM = "deterministic simulation: seeded search over schedules and faults on the mechanically rewritten real code, oracle over the recorded history, minimised replay file"
CHECKS = {
 "C06": dict(world="laneworld", ref="5.1", tech=SIM + "; exactly-once ledger per task object, bounded liveness at simulator quiescence",
   text="Seeded exploration of schedules of producers, queue goroutines, workers and timers with cancellation injected at arbitrary steps; a ledger per task object is checked online (never twice) and at quiescence (accepted => started once, rejected => never). Sampling, not proof; the level a concurrent hand-over protocol with timeouts can be given without a model of the Go runtime."),
 "C07": dict(world="laneworld", ref="5.1", tech=SIM + "; quiescence analysis after cancellation (Wait returned, no lane goroutine alive, nothing starts after Wait)",
   text="Same world; the context is cancelled mid-run, by deadline, before New, before or after the gates open; at the following quiescence the oracle requires released producers, context errors for later pushes, Wait returned after every started task ended, no goroutine of the package alive."),
 "C08": dict(world="laneworld", ref="5.1", tech=SIM + "; concurrency-bound invariant at every task start, head-of-line oracle at quiescence with pinned workers",
   text="Same world; fewer than laneSize workers are pinned by gated tasks, further tasks are pushed (in particular all to one lane); invariant running<=laneSize at every event and, at quiescence with gates closed, no accepted task may be waiting while a worker is idle."),
 "C14": dict(world="laneworld", ref="5.1", tech=SIM + "; vector-clock happens-before race detection inside the simulator, worker head-count and pending-count oracles at quiescence",
   text="Same world with panicking tasks of six dynamic types, several released at once, and concurrent Status() pollers; the simulator's own happens-before race detector watches every field of the lane; head count of workers after the panics; exact pending count at rest; LastPanic must be one of the raised values."),
 "C11": dict(world="filterworld", ref="5.4", tech=SIM + "; sequential configuration: seeded Add/Remove/Contains histories against a set-of-prefixes reference model, exact equality after every operation",
   text="The strict, fault-free, single-client configuration of the filter simulation: seeded histories over a colliding universe of prefixes (lengths 0..32, non-canonical spellings, duplicates, removal of absent ranges), with a prologue that places the filter before, at or beyond its list-to-map switch with removed slots; after every operation boundary addresses are probed in 4-byte and 16-byte form and compared with a set-of-prefixes model; invalid arguments must be rejected without effect. There is no schedule in this property: the simulator contributes the seeded history, the model, minimisation and replay, and is the strict twin that the relaxed concurrent oracle of C12 needs beside it."),
 "C12": dict(world="filterworld", ref="5.4", tech=SIM + "; pre-emption inside critical sections, vector-clock happens-before race detection, interval oracle over the recorded history (stable range => true, never-present => false), final-state check",
   text="1..3 writer tasks owning disjoint ranges (one toggling 0.0.0.0/0) and 1..3 reader tasks under seeded schedules with pre-emption at every instrumented memory access, crossing the list-to-map switch while readers run; the simulator's race detector decides 'no data races', an interval oracle over invoke/return stamps decides the consistency clause (deliberately weaker than linearizability, which the filter does not provide), and the final membership is compared with the sequential application of each writer's operations."),
 "C19": dict(world="progressworld", ref="5.5", tech=SIM + "; prefix-sum oracle over the recorded history of wrapped-writer calls and received values, stall detection at simulator quiescence",
   text="Seeded schedules of one writer task (0..8 Write/WriteString calls, then Close) and 1..2 consumers of four temperaments over a wrapped writer that writes short, fails or fails partially; Size() is compared with the wrapped writer's own tally after every call, a stalled Write shows as a blocked task at quiescence, received values must be non-decreasing prefix sums of completed writes, and Close must deliver the final total and close the channel."),
 "C02": dict(world="logworld", ref="5.2", tech=SIM + "; instrumented destination writer (overlap, payload, faults), line-by-line differential against an isolated replay of the same code, happens-before race detection",
   text="Seeded schedules of 1..4 simulated goroutines logging and deriving through shared loggers of all three handlers, with the simulator choosing which pooled buffer comes back (fresh, most recent, stale) and a destination that is slow, writes short or fails; the oracle over the writer's history requires no overlapping Write, exactly one Write per enabled record carrying exactly the line the same record gives when logged alone, nothing for records below the threshold, nothing else."),
 "C03": dict(world="logworld", ref="5.2", tech=SIM + "; derivation-tree histories (sequential and concurrent), every line compared with an isolated replay of that logger's own chain and with the chain folded into call-site form",
   text="Seeded derivation trees of up to 12 loggers built before and during the run (several children of derived parents, concurrent derivation from a shared parent), a probe record through every node at the end; each line must equal the line of a logger built alone from a fresh root by replaying only its own chain, and (source off) the line of an underived root given the chain folded into the call's attribute list."),
 "C05": dict(world="httpworld", ref="5.3", tech=SIM + "; pool reuse decided by the simulator, concurrent in-flight requests, differential against the same request on a fresh Mux, happens-before race detection on Store fields",
   text="Seeded request histories over one Mux (matching, partially matching, unmatched, panicking handlers) from 1..4 concurrent clients, with the simulator choosing which pooled Store each request gets and further routes registered between batches; everything a handler can observe through Store (route, every parameter name anywhere in the table, RouteParamAny, initial status) must equal what the same request observes on a fresh Mux with the routes registered at that moment; IDs must be constant within a request and pairwise distinct; the race detector watches Store/Params/ResponseWriter fields."),
 "C15": dict(world="httpworld", ref="5.3", tech=SIM + "; generated handler behaviours and failing client connection, log records paired by request ID against what the simulated client received",
   text="1..6 concurrent clients send requests through Mux + Logger.Relay over each log handler; per request the handler behaviour is generated (status, body, panic before/after the status/after a partial body, eight kinds of panic value including nil-like ones, client connection failing); oracle per request: no panic leaves ServeHTTP, 500 exactly when the panic preceded any status, one REQ_BEG and one REQ_END with the request's method/URI/IP/ID and the code the client received, one Error record with the panic value iff it panicked."),
 "C18": dict(world="fsworld", ref="5.6", cat="fault_enumeration", tech="deterministic simulation with fault injection over a simulated file system: every aliasing/layout scenario x every single-fault position of its recorded syscall trace enumerated completely, seeded multi-fault sampling, content-snapshot oracle, fault-free scenarios cross-run on the real file system",
   text="The os import of util/osutil/file.go is redirected to an in-memory POSIX-like file system with per-call fault plans. All 588 scenarios (operation x 7 sizes x 3 source kinds x 14 destination layouts incl. same path, ./ and dir/../ spellings, symlink, hard link, other mount) are run fault-free and then once per (call of the recorded trace, applicable errno, partial-write amount): the single-fault product is exhaustive; two- and three-fault plans are sampled by seed. Oracle: content snapshot taken before the call (nil => destination holds the source's bytes and, for CopyFile, so does the source; error => source intact; MoveFile removes the source only after the destination is complete)."),
}
NOTE = "Trusted base: the simgo rewriter (chan/select/go -> simrt calls, import shims, in-place access instrumentation) preserves the semantics of the rewritten package; simrt's primitives conform to the Go spec and memory model (conformance suite with exact outcome sets and a two-sided race-detector self-test run in setup_cmd); the harness oracles. Sampling over bounded configurations, not proof."
m = {
 "version": 1,
 "setup_cmd": f"cd /verif/simgo && {ENV} go build -o /verif/bin/simcheck ./cmd/simcheck && {ENV} go test -count=1 ./simrt",
 "hooks": {"guard": "verif", "enable": "checks copy /repo's working tree to a scratch directory and rewrite it there (no hooks needed for the simgo worlds); C20 builds with -tags verif",
           "baseline_off_cmd": f"cd /repo && {ENV} go test -vet=off -count=1 -timeout 25m ./...", "source_commits": [], "add_only": True},
 "engines": [{"name": "simgo", "path": "simgo", "serves_properties": sorted(CHECKS), "kind_free_text": "deterministic simulator for Go: type-directed source rewriter + baton-passing runtime with one seeded chooser, discrete-event clock, fault-injecting seams, vector-clock race detector, choice-list minimiser and replay"}],
 "checks": [], "not_applicable": [{"property_id": k, "reason": v} for k, v in sorted(NA.items())],
 "notes": "Every check rebuilds from /repo's current working tree (scratch copy, removed on exit). Exit 2 = infrastructure trouble, never a verdict. known_findings.json lists genuine defects (open ones print KNOWN-FINDING and exit 0; fixed ones suppress nothing).",
}
for pid in PENDING:
    if pid not in CHECKS:
        m["not_applicable"].append({"property_id": pid, "reason": "not claimed in this commit: the simulated world for it is designed (DESIGN.md section 5) but not built yet"})
for pid, c in sorted(CHECKS.items()):
    m["checks"].append({
        "property_id": pid, "quick_cmd": f"bin/simcheck -p {pid} -tier quick", "thorough_cmd": f"bin/simcheck -p {pid} -tier thorough",
        "evidence_file": f"/verif/evidence/{pid}.json", "replay_cmd_template": "bin/simcheck --replay {path}", "engine": c.get("engine", "simgo"),
        "level_claimed": {"category": c.get("cat", "exploration"), "text": c["text"], "design_ref": "DESIGN.md section " + c["ref"]},
        "level_note": NOTE, "technique": c["tech"]})
json.dump(m, open("/verif/MANIFEST.json", "w"), indent=1)
subprocess.run(["python3-vt", "-c", "import json,jsonschema;jsonschema.validate(json.load(open('/verif/MANIFEST.json')),json.load(open('/root/.vp/MANIFEST.schema.json')));print('manifest valid')"], check=True)
