#!/usr/bin/env python3
"""Apply a textual mutation to a file in /repo, run checks, revert.
usage: mut.py <file> <old> <new> -- <prop>...   (old/new are python-escaped strings)"""
import subprocess, sys
f, old, new = sys.argv[1], sys.argv[2].encode().decode('unicode_escape'), sys.argv[3].encode().decode('unicode_escape')
props = sys.argv[5:]
p = '/repo/' + f
s = open(p).read()
if s.count(old) != 1:
    print('pattern count', s.count(old)); sys.exit(3)
open(p, 'w').write(s.replace(old, new))
try:
    r = subprocess.run('cd /repo && GOFLAGS=-mod=mod GOPROXY=off go build ./... 2>&1 | head -5', shell=True, capture_output=True, text=True)
    if r.stdout.strip():
        print('BUILD FAIL', r.stdout)
    else:
        for pr in props:
            r = subprocess.run(['/verif/bin/simcheck', '-p', pr], capture_output=True, text=True)
            lines = [l for l in (r.stdout + r.stderr).splitlines() if l.startswith(('VIOLATION', 'violation', 'simcheck', 'KNOWN')) or 'runs,' in l]
            print(pr, 'exit', r.returncode, '|', ' || '.join(lines)[:600])
finally:
    subprocess.run(['git', '-C', '/repo', 'checkout', '--', f])
