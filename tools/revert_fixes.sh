#!/bin/bash
# For every "fix:" commit of /repo: revert it in the working tree only (git revert -n, never committed),
# run the quick check of the property it repaired, undo. Every check must report the violation again
# ("a fixed entry suppresses nothing"). Evidence files are overwritten: run tools/runall.sh afterwards.
cd /verif
declare -A PROP=([9ae2269]=C14 [844b514]=C11 [c2edf00]=C05 [9a82b7c]=C05 [506cc7d]=C15 [5f2e42d]=C18 [e0e4b40]=C20 [99bb496]=C03 [2c50884]=C15)
rc=0
for c in 9ae2269 844b514 c2edf00 9a82b7c 506cc7d 5f2e42d e0e4b40 99bb496 2c50884; do
  [ -z "$(git -C /repo status --porcelain)" ] || { echo "/repo not clean"; exit 2; }
  if ! git -C /repo revert -n $c >/dev/null 2>&1; then
    git -C /repo revert --abort 2>/dev/null; git -C /repo reset -q --hard HEAD
    echo "$c (${PROP[$c]}): cannot be reverted alone (later commits build on it)"; continue
  fi
  out=$(bin/simcheck -p ${PROP[$c]} -tier quick 2>&1); r=$?
  git -C /repo revert --abort 2>/dev/null; git -C /repo reset -q --hard HEAD
  echo "$c ${PROP[$c]} exit=$r $(echo "$out" | grep -m1 '^violation:' | cut -c1-200)"
  [ $r -ne 1 ] && rc=1
done
exit $rc
