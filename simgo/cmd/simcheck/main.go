// simcheck is the driver of every check registered in MANIFEST.json:
//
//	simcheck -p C06 -tier quick|thorough     run the check for one property
//	simcheck --replay <file>                 re-execute a replay file
//	simcheck rewrite <repo> <scratch> pkg…   (debug) rewrite only
//
// Exit status: 0 the property held on everything explored (known findings are
// printed as KNOWN-FINDING lines), 1 with a "VIOLATION property=<id>
// replay=<path>" line for a reproduced, minimised violation, 2 for
// build / rewriter / watchdog / determinism trouble (never a VIOLATION).
package main

import (
	"bytes"
	"crypto/sha256"
	"encoding/binary"
	"encoding/json"
	"flag"
	"fmt"
	"os"
	"os/exec"
	"path/filepath"
	"runtime"
	"sort"
	"strconv"
	"strings"
	"sync"
	"time"

	"simgo/kit"
	"simgo/rewrite"
)

// verifDir is where the framework lives (sources of the worlds, simgo,
// evidence, replays, known findings). VERIF_DIR overrides it for background
// runs from a snapshot; the registered checks use /verif.
var verifDir = func() string {
	if d := os.Getenv("VERIF_DIR"); d != "" {
		return d
	}
	return "/verif"
}()

// repoDir is the tree under test; VERIF_REPO overrides it for background runs
// that must not see edits made to /repo while they work.
var repoDir = func() string {
	if d := os.Getenv("VERIF_REPO"); d != "" {
		return d
	}
	return "/repo"
}()

type worldSpec struct {
	name     string
	pkgs     []string
	quick    int // runs in the quick tier
	thorough int // runs per seed base in the thorough tier
	real     []string
	stub     []string
	rule     string
	assume   []string
	probes   map[string][]string // property -> rare-condition probes that are expected to be hit
	enum     bool                // the world enumerates part of its space exhaustively
	level    string              // evidence level (default exploration)
}

var worlds = map[string]*worldSpec{
	"laneworld": {
		name: "laneworld", pkgs: []string{"tasklane"}, quick: 12000, thorough: 150000,
		real: []string{"tasklane/tasklane.go (every select, counter, recover; mechanically rewritten onto simulated primitives)"},
		stub: []string{"goroutine scheduling", "channels and select", "sync.WaitGroup", "atomic.Uint32", "time.After / clock", "context cancellation and deadlines", "task bodies (harness)"},
		rule: "one case = one simulated run: lane (1..6, one in twelve 34, one in twenty-four 70) / queue sizes, a rare history of 4200 or 66000 trivial tasks through a single worker first, timeout, 1..3 concurrent Wait callers, context fate, producers, task kinds, pinned workers, pollers and every scheduling/select decision are drawn from one seeded chooser; a run is non-trivial if it contains at least one context switch at a point where the running task could have continued, a forced pre-emption or a fired fault; distinct = distinct FNV-1a hash of the full event history",
		assume: []string{"the simulated channel/select/sync/timer/context primitives conform to the Go specification and memory model (checked by simrt's conformance suite in setup and by its race-detector self-test)",
			"sampling, not proof: lanes<=4, queue<=3, <=3 producers x <=5 tasks, <=4 pinned workers per run"},
	},
}

func init() {
	worlds["progressworld"] = &worldSpec{
		name: "progressworld", pkgs: []string{"util/ioutil"}, quick: 16000, thorough: 150000,
		real:   []string{"util/ioutil/progress.go (sum with select-default send, Close, Write, WriteString; channel syntax mechanically rewritten)"},
		stub:   []string{"goroutine scheduling", "the status channel", "writer and consumer tasks (harness)", "the wrapped io.Writer / io.StringWriter (short, failing, partial writes)", "clock"},
		rule:   "one case = one simulated run: a script of 0..8 Write/WriteString calls of sizes 0..64KiB (one run in eight: 64 KiB..2 GiB, the total passing 2^31 and 2^32) over a fault-injecting wrapped writer, then Close, against 1..2 consumers of four temperaments, under a seeded schedule; non-trivial = at least one context switch where the running task could have continued, forced pre-emption or fired fault; distinct = distinct hash of the full event history",
		assume: []string{"simulated channel semantics conform to the Go specification (simrt conformance suite)", "sampling, not proof: <=8 operations, <=2 consumers per run"},
	}
	worlds["laneworld"].probes = map[string][]string{"*": {"select.multi_ready", "non_positive_push_timeout", "task_pushes_a_task", "push_timeout_fired", "push_ctx_error", "cancel_while_push_in_flight", "cancel_with_tasks_pending", "hol_state_with_pinned_workers", "pending_exact_nonzero", "many_lanes", "foreign_context", "push_right_after_cancel", "concurrent_waiters", "long_deadline", "long_deadline_checked", "pending_exact_after_shutdown", "nil_task_pushed", "long_history", "concurrent_recover_2plus", "headcount_checked", "clock.jump", "ctx.cancel_midrun", "ctx.deadline_fired", "ctx.cancel_before_gates",
		"cancel_with_queue_goroutine_blocked_in_handover", "cancel_with_queue_goroutine_about_to_hand_over", "cancel_with_worker_idle", "cancel_with_queue_goroutine_idle",
		"cancel_with_producer_blocked_on_full_lane", "cancel_with_producer_about_to_enqueue", "cancel_with_worker_mid_task"}}
	worlds["progressworld"].probes = map[string][]string{"*": {"consumer_absent_until_close", "consumer_walked_away", "consumer_late", "consumer_slow", "stringwriter_path", "total_beyond_2GiB", "over_a_thousand_writes", "write.short", "write.error_partial", "write.error_zero"}}
	propWorld["C19"] = "progressworld"
	worlds["filterworld"] = &worldSpec{
		name: "filterworld", pkgs: []string{"util/netutil"}, quick: 8000, thorough: 60000,
		real:   []string{"util/netutil/filter.go (Add, Remove, Contains, list-to-map migration; sync imports shimmed, every field/element/map access instrumented in place)"},
		stub:   []string{"goroutine scheduling", "sync.RWMutex", "atomic.Bool", "client tasks (harness)"},
		rule:   "one case = one simulated run: a prologue that places the filter before, at or beyond the list-to-map switch (with removed slots), then a seeded history of Add/Remove/Contains/invalid-argument calls over a colliding universe of prefixes (C11: one client, model equality after every operation, 4- and 16-byte probes; C12: 1..3 writers owning disjoint ranges, 1..3 readers, pre-emption inside critical sections); non-trivial = at least one context switch where the running task could have continued, forced pre-emption or fired fault (C11 runs are sequential: non-trivial there means distinct operation history); distinct = distinct hash of the full event history",
		assume: []string{"simulated RWMutex/atomic semantics conform to package sync's documentation (simrt conformance suite)", "sampling, not proof: <=40 operations after the prologue, <=3 writers, <=3 readers"},
	}
	worlds["logworld"] = &worldSpec{
		name: "logworld", pkgs: []string{"logger", "httpd", "util/netutil"}, quick: 6000, thorough: 80000,
		real:   []string{"logger/*.go (Nano/Text/JSON handlers, Logger, buffer pool; sync and time imports shimmed, accesses instrumented)", "log/slog", "encoding/json", "strconv", "fmt", "runtime.Callers"},
		stub:   []string{"goroutine scheduling", "sync.Mutex behind outMu", "both sync.Pools (fresh / most recent / stale object chosen by the simulator)", "clock (moves between records by 0..1h; the reference is computed at the instant the record was stamped with)", "caller tasks (harness)", "destination io.Writer (slow, short, failing)"},
		rule:   "one case = one simulated run: handler kind, threshold, colour and source flags, a derivation tree of up to 12 loggers built before and during the run, 1..4 client tasks logging and deriving through shared nodes with generated attribute lists (all slog kinds, nested/inline groups, LogValuer, AnsiString, lines over 16 KiB by attribute value and by message), a probe record through every node at the end; every line is compared with an isolated replay of its logger's own chain; non-trivial = at least one context switch where the running task could have continued, forced pre-emption or fired fault; distinct = distinct hash of the full event history",
		assume: []string{"the reference is the same code in isolation (fresh root, fresh pool buffers, sequential): a defect that changes isolated and concurrent output identically is invisible here (that is C01/C13 territory, not applicable to this technique)", "sampling, not proof: <=12 loggers, <=4 clients x <=7 operations"},
	}
	worlds["httpworld"] = &worldSpec{
		name: "httpworld", pkgs: []string{"logger", "httpd", "util/netutil"}, quick: 6000, thorough: 80000,
		real:   []string{"httpd/*.go (Mux, trie lookup, Store, ResponseWriter)", "logger/httpd.go (Relay) and the three log handlers", "net/http request/response data types, http.Error", "log/slog, encoding/json, runtime.Stack"},
		stub:   []string{"goroutine scheduling", "sync.Pool behind the Store pool and the log buffer pools (fresh / most recent / stale object chosen by the simulator)", "atomic request counter", "crypto/rand (ID prefix from the PRNG)", "clock", "client tasks (harness)", "http.ResponseWriter (records WriteHeader calls, first status, body; can fail Write)", "log destination"},
		rule:   "one case = one simulated run. C05: a route table drawn from patterns with 0..4 parameters of differing names, 1..3 batches of requests (matching, partially matching then failing, unmatched, handler panicking under a recovering relay) from 1..4 concurrent clients, further routes registered between batches; every observation through Store is compared with the same request on a fresh Mux. C15: 1..6 clients with generated handler behaviours (status, body, panic point, sixteen panic value kinds (among them nil, runtime errors, typed nil errors, unhashable values), failing client connection) through Mux + Logger.Relay over each log handler; records are paired by request ID. Non-trivial = at least one context switch where the running task could have continued, forced pre-emption or fired fault; distinct = distinct hash of the full event history",
		assume: []string{"request paths are well-formed (leading slash): what findRoute does with other strings is C04's subject", "C15 runs with colour off and URIs/tokens over [A-Za-z0-9/_-] so that the record tokenizers stay trivial and independent of C01/C13", "sampling, not proof: <=10 routes, <=4 clients x <=5 requests x <=3 batches"},
	}
	worlds["fsworld"] = &worldSpec{
		name: "fsworld", pkgs: []string{"util/osutil"}, quick: 8000, thorough: 20000, enum: true, level: "fault_enumeration",
		real:   []string{"util/osutil/file.go (CopyFile, MoveFile: control flow, defers, error handling)", "io.Copy (32 KiB loop)"},
		stub:   []string{"the file system behind package os (simgo/shim/sos: inodes, links, symlinks, path resolution, two devices, open file descriptions, O_TRUNC at open, rename/unlink semantics) with per-call fault plans", "no concurrency in this property: the scheduler is idle"},
		rule:   "cases = (a) every scenario of {CopyFile, MoveFile} x 10 source contents (0..1 MiB, one with an all-zero middle copy block, one whose last two copy blocks are all zeros; a tenth of 5 MiB + 3 bytes is drawn by the seeded part only) x {regular, missing, via symlink} x 19 destination layouts (missing, shorter, longer, same length with other bytes, same path, ./ and dir/../ spellings, symlink to source, hard link of source, directory, parent missing, parent is a file, other mount missing/existing, dangling symlink, symlink to another file, symlink on the other mount to the source, the source's own name or a fresh name reached through a symlink to its directory), fault-free; (b) for each scenario every single-fault placement: each call of its recorded trace x each errno applicable to that primitive (writes additionally x {0, half, all-but-one} bytes written before the error) ; (c) two-call histories in one process: every single-fault placement in an earlier CopyFile / MoveFile (4 sizes x 6 destination layouts) followed by a fault-free CopyFile or cross-mount MoveFile - (a), (b) and (c) are enumerated completely; (d) seeded histories of up to three calls (earlier calls in their own directories, three in four failed by one fault) whose last call carries a plan of up to three faults over a random scenario; every call of a history is held to the oracle, fault-free histories are also run by the unrewritten package on the real file system in a child process. distinct = distinct hash of (scenario, call trace with faults, result); every case is non-trivial (it runs the operation)",
		assume: []string{"the simulated file system is faithful where the property looks: every fault-free scenario is also executed by the unrewritten package on the real file system (second mount: /dev/shm) and must agree in error class and resulting contents", "errors surfacing only at Close and power loss are outside the property's fault list"},
	}
	worlds["fsworld"].probes = map[string][]string{"*": {"traces_validated_against_real_fs", "fs.rename:EXDEV", "fs.write:ENOSPC", "fs.read:EIO", "fs.unlink:EPERM", "fs.truncate:EIO", "fs.fstat:EIO"}}
	propWorld["C18"] = "fsworld"
	worlds["httpworld"].probes = map[string][]string{
		"C05": {"nested_request", "panic_unwinds_through_servehttp", "route_with_more_params_added_after_store_pooled", "pool.miss_with_items", "pool.stale_pick"},
		"C15": {"panic_with_long_stack_trace", "zero_length_first_write", "abort_handler_panic", "unhashable_panic_value", "mounted_sub_router", "panic_storm", "body_via_io_copy", "flush_before_writing", "panic_before_writing", "panic_after_status", "panic_after_partial_body", "client.write_error", "pool.stale_pick"}}
	propWorld["C05"] = "httpworld"
	propWorld["C15"] = "httpworld"
	worlds["logworld"].probes = map[string][]string{"*": {"clock_moves_between_records", "line_over_pool_limit", "message_over_pool_limit", "message_over_a_mebibyte", "message_needing_quotes", "line_near_pool_limit", "long_key_path", "group_name_reused", "empty_derivation", "siblings_of_derived_parent", "inline_group", "empty_group", "threshold_between_levels", "odd_key", "group_storm", "malformed_args", "below_threshold", "slow_write", "folded_compared", "pool.miss_with_items", "pool.stale_pick", "sink.short_write", "sink.write_error"}}
	propWorld["C02"] = "logworld"
	propWorld["C03"] = "logworld"
	worlds["filterworld"].probes = map[string][]string{
		"C11": {"removed_slot_before_switch", "second_filter_matches_all", "caller_keeps_addresses", "long_history", "over_a_thousand_removes", "crossed_switch_during_run", "remove_after_migration"},
		"C12": {"crossed_switch_while_readers_run", "second_filter_matches_all", "matchall_toggled", "lookup_overlaps_writers", "lookup_with_either_answer_legal", "removed_slot_before_switch"}}
	propWorld["C11"] = "filterworld"
	propWorld["C12"] = "filterworld"
}

var propWorld = map[string]string{
	"C06": "laneworld", "C07": "laneworld", "C08": "laneworld", "C14": "laneworld",
}

type finding struct {
	Property  string `json:"property"`
	Signature string `json:"signature"`
	Status    string `json:"status"` // "open" or "fixed"
	Commit    string `json:"commit,omitempty"`
	What      string `json:"what"`
}

func loadFindings() []finding {
	b, err := os.ReadFile(filepath.Join(verifDir, "known_findings.json"))
	if err != nil {
		return nil
	}
	var f struct {
		Findings []finding `json:"findings"`
	}
	if err := json.Unmarshal(b, &f); err != nil {
		fatal("known_findings.json: %v", err)
	}
	return f.Findings
}

func fatal(format string, a ...any) {
	fmt.Fprintf(os.Stderr, "simcheck: "+format+"\n", a...)
	os.Exit(2)
}

// worldsMod is the go.mod the worlds are built with: the committed one with
// simgo, glb and glborig replaced by this run's directories.
func worldsMod(committed, scratch string) string {
	var keep []string
	for _, l := range strings.Split(committed, "\n") {
		if !strings.HasPrefix(strings.TrimSpace(l), "replace ") {
			keep = append(keep, l)
		}
	}
	return strings.Join(keep, "\n") + "\nreplace simgo => " + filepath.Join(verifDir, "simgo") +
		"\nreplace github.com/whoisnian/glb => " + filepath.Join(scratch, "glb") +
		"\nreplace glborig => " + filepath.Join(scratch, "glborig") + "\n"
}

func goEnv() []string {
	env := os.Environ()
	env = append(env, "GOFLAGS=-mod=mod", "GOPROXY=off", "GOSUMDB=off", "GOTOOLCHAIN=local")
	return env
}

func treeID() string {
	rev, _ := exec.Command("git", "-C", repoDir, "rev-parse", "--short", "HEAD").Output()
	diff, _ := exec.Command("git", "-C", repoDir, "diff", "HEAD").Output()
	id := strings.TrimSpace(string(rev))
	if len(bytes.TrimSpace(diff)) > 0 {
		h := sha256.Sum256(diff)
		id += fmt.Sprintf("+dirty-%x", h[:6])
	}
	return id
}

func main() {
	if len(os.Args) >= 4 && os.Args[1] == "rewrite" {
		if err := rewrite.Prepare(os.Args[2], os.Args[3], filepath.Join(verifDir, "simgo"), os.Args[4:]); err != nil {
			fatal("%v", err)
		}
		return
	}
	var (
		prop    = flag.String("p", "", "property id")
		tier    = flag.String("tier", "quick", "quick or thorough")
		replay  = flag.String("replay", "", "replay file")
		runsOv  = flag.Int("runs", 0, "override the number of runs (per seed base)")
		keep    = flag.Bool("keep", false, "keep the scratch directory")
		workers = flag.Int("workers", runtime.NumCPU(), "worker processes")
	)
	flag.Parse()
	if t := os.Getenv("VERIF_TIER"); t != "" && !isFlagSet("tier") {
		*tier = t
	}
	if *replay != "" {
		os.Exit(doReplay(*replay))
	}
	if *prop == "" {
		fatal("usage: simcheck -p <property> [-tier quick|thorough] | --replay <file>")
	}
	if *prop == "C20" {
		os.Exit(checkProc(*prop, *tier, seedFromEnv(), *runsOv, *keep))
	}
	wn, ok := propWorld[*prop]
	if !ok {
		fatal("property %s has no check (not applicable or unknown)", *prop)
	}
	seed := uint64(1)
	if s := os.Getenv("VERIF_SEED"); s != "" {
		v, err := strconv.ParseUint(s, 10, 64)
		if err != nil {
			fatal("VERIF_SEED=%q: %v", s, err)
		}
		seed = v
	}
	os.Exit(check(*prop, worlds[wn], *tier, seed, *runsOv, *workers, *keep))
}

func seedFromEnv() uint64 {
	seed := uint64(1)
	if s := os.Getenv("VERIF_SEED"); s != "" {
		v, err := strconv.ParseUint(s, 10, 64)
		if err != nil {
			fatal("VERIF_SEED=%q: %v", s, err)
		}
		seed = v
	}
	return seed
}

func isFlagSet(name string) bool {
	set := false
	flag.Visit(func(f *flag.Flag) {
		if f.Name == name {
			set = true
		}
	})
	return set
}

// build copies /repo's working tree to a scratch directory, rewrites the
// packages the world needs and builds the world binary against the copy.
func build(ws *worldSpec) (scratch, bin string) {
	scratch, err := os.MkdirTemp("", "simcheck-"+ws.name+"-")
	if err != nil {
		fatal("%v", err)
	}
	if err := rewrite.Prepare(repoDir, scratch, filepath.Join(verifDir, "simgo"), ws.pkgs); err != nil {
		os.RemoveAll(scratch)
		fatal("rewrite failed (infrastructure, not a verdict): %v", err)
	}
	mod, err := os.ReadFile(filepath.Join(verifDir, "worlds", "go.mod"))
	if err != nil {
		fatal("%v", err)
	}
	modFile := filepath.Join(scratch, "worlds.mod")
	os.WriteFile(modFile, []byte(worldsMod(string(mod), scratch)), 0644)
	sum, _ := os.ReadFile(filepath.Join(repoDir, "go.sum"))
	os.WriteFile(filepath.Join(scratch, "worlds.sum"), sum, 0644)
	bin = filepath.Join(scratch, ws.name)
	cmd := exec.Command("go", "build", "-modfile="+modFile, "-o", bin, "./"+ws.name)
	cmd.Dir = filepath.Join(verifDir, "worlds")
	cmd.Env = goEnv()
	if out, err := cmd.CombinedOutput(); err != nil {
		os.RemoveAll(scratch)
		fatal("building %s against the rewritten tree failed (infrastructure, not a verdict):\n%s", ws.name, out)
	}
	return scratch, bin
}

type block struct {
	seed     uint64
	from, to uint64
	procs    int // GOMAXPROCS for this block
}

func runBlocks(bin, prop string, blocks []block, scratch string, workers int, budget time.Duration) []*kit.Stats {
	out := make([]*kit.Stats, len(blocks))
	var wg sync.WaitGroup
	sem := make(chan struct{}, workers)
	var mu sync.Mutex
	var firstErr string
	for i, b := range blocks {
		wg.Add(1)
		go func(i int, b block) {
			defer wg.Done()
			sem <- struct{}{}
			defer func() { <-sem }()
			of := filepath.Join(scratch, fmt.Sprintf("stats-%d.json", i))
			args := []string{"-prop", prop, "-seed", fmt.Sprint(b.seed), "-from", fmt.Sprint(b.from), "-to", fmt.Sprint(b.to), "-out", of}
			if budget > 0 {
				args = append(args, "-budget", budget.String())
			}
			cmd := exec.Command(bin, args...)
			cmd.Env = append(os.Environ(), fmt.Sprintf("GOMAXPROCS=%d", b.procs))
			var stderr bytes.Buffer
			cmd.Stderr = &stderr
			cmd.Stdout = &stderr
			done := make(chan error, 1)
			cmd.Start()
			go func() { done <- cmd.Wait() }()
			limit := 30 * time.Minute
			if budget > 0 {
				limit = budget + 10*time.Minute
			}
			select {
			case err := <-done:
				if err != nil {
					mu.Lock()
					if firstErr == "" {
						firstErr = fmt.Sprintf("worker %v: %v\n%s", b, err, tail(stderr.String(), 60))
					}
					mu.Unlock()
					return
				}
			case <-time.After(limit):
				cmd.Process.Kill()
				mu.Lock()
				if firstErr == "" {
					firstErr = fmt.Sprintf("worker %v: watchdog expired after %v", b, limit)
				}
				mu.Unlock()
				return
			}
			bts, err := os.ReadFile(of)
			if err != nil {
				mu.Lock()
				firstErr = err.Error()
				mu.Unlock()
				return
			}
			st := &kit.Stats{}
			if err := json.Unmarshal(bts, st); err != nil {
				mu.Lock()
				firstErr = err.Error()
				mu.Unlock()
				return
			}
			out[i] = st
		}(i, b)
	}
	wg.Wait()
	if firstErr != "" {
		os.RemoveAll(scratch)
		fatal("%s", firstErr)
	}
	return out
}

func tail(s string, n int) string {
	lines := strings.Split(s, "\n")
	if len(lines) > n {
		lines = lines[len(lines)-n:]
	}
	return strings.Join(lines, "\n")
}

func readHashes(path string) (all, shapes, nt map[uint64]struct{}) {
	b, err := os.ReadFile(path)
	if err != nil {
		fatal("%v", err)
	}
	rd := func() map[uint64]struct{} {
		n := binary.LittleEndian.Uint64(b)
		b = b[8:]
		m := make(map[uint64]struct{}, n)
		for i := uint64(0); i < n; i++ {
			m[binary.LittleEndian.Uint64(b)] = struct{}{}
			b = b[8:]
		}
		return m
	}
	return rd(), rd(), rd()
}

func check(prop string, ws *worldSpec, tier string, seed uint64, runsOverride, workers int, keep bool) int {
	start := time.Now()
	scratch, bin := build(ws)
	if !keep {
		defer os.RemoveAll(scratch)
	} else {
		fmt.Println("scratch:", scratch)
	}
	buildS := time.Since(start).Seconds()

	var seeds []uint64
	runs := ws.quick
	if tier == "thorough" {
		runs = ws.thorough
		// a hundred times the runs: the most expensive rare scenarios of a world
		// become rarer by this factor (their number still grows fourfold)
		os.Setenv("SIM_RARITY", "25")
		for i := uint64(0); i < 8; i++ {
			seeds = append(seeds, seed+i*1000003)
		}
	} else {
		seeds = []uint64{seed}
	}
	if runsOverride > 0 {
		runs = runsOverride
	}
	enumN := 0
	if ws.enum {
		out, code := runTool(bin, "-prop", prop, "-enumsize")
		n, err := strconv.Atoi(strings.TrimSpace(out))
		if code != 0 || err != nil {
			os.RemoveAll(scratch)
			fatal("enumeration failed: %s", out)
		}
		enumN = n
		runs += enumN
	}
	var blocks []block
	per := (runs + workers - 1) / workers
	if tier == "thorough" {
		per = 5000
	}
	for _, sd := range seeds {
		for from := 0; from < runs; from += per {
			to := from + per
			if to > runs {
				to = runs
			}
			blocks = append(blocks, block{seed: sd, from: uint64(from), to: uint64(to), procs: 2})
		}
	}
	// determinism self-test: the first 150 runs again, in separate processes,
	// at GOMAXPROCS 1, 4 and 16; the sets of history hashes must be identical.
	detN := uint64(150)
	if uint64(runs) < detN {
		detN = uint64(runs)
	}
	nMain := len(blocks)
	for _, p := range []int{1, 4, 16} {
		blocks = append(blocks, block{seed: seeds[0], from: 0, to: detN, procs: p})
	}
	stats := runBlocks(bin, prop, blocks, scratch, workers, 0)

	// determinism
	var ref map[uint64]struct{}
	var refSteps int64
	for i := nMain; i < len(blocks); i++ {
		h, _, _ := readHashes(stats[i].HashFile)
		if ref == nil {
			ref, refSteps = h, stats[i].Steps
			continue
		}
		same := len(h) == len(ref) && stats[i].Steps == refSteps
		for k := range h {
			if _, ok := ref[k]; !ok {
				same = false
			}
		}
		if !same {
			fatal("determinism self-test failed: the same %d runs gave different histories at GOMAXPROCS=%d (infrastructure, not a verdict)", detN, blocks[i].procs)
		}
	}

	// merge
	tot := &kit.Stats{Faults: map[string]int{}, Probes: map[string]int{}, Ends: map[string]int{}}
	all, shapes, nt := map[uint64]struct{}{}, map[uint64]struct{}{}, map[uint64]struct{}{}
	var failing []kit.ReplayFile
	var infra []string
	var wallWorkers float64
	for i := 0; i < nMain; i++ {
		st := stats[i]
		tot.Runs += st.Runs
		tot.Steps += st.Steps
		tot.SimTimeNs += st.SimTimeNs
		tot.Switches += st.Switches
		tot.Preempts += st.Preempts
		tot.ReplayChecks += st.ReplayChecks
		tot.Enumerated += st.Enumerated
		wallWorkers += st.WallS
		if st.MaxSteps > tot.MaxSteps {
			tot.MaxSteps = st.MaxSteps
		}
		for k, v := range st.Faults {
			tot.Faults[k] += v
		}
		for k, v := range st.Probes {
			tot.Probes[k] += v
		}
		for k, v := range st.Ends {
			tot.Ends[k] += v
		}
		if len(tot.Samples) < 2 {
			tot.Samples = append(tot.Samples, st.Samples...)
		}
		failing = append(failing, st.Failing...)
		infra = append(infra, st.Infra...)
		a, s, n := readHashes(st.HashFile)
		for k := range a {
			all[k] = struct{}{}
		}
		for k := range s {
			shapes[k] = struct{}{}
		}
		for k := range n {
			nt[k] = struct{}{}
		}
	}
	if len(infra) > 0 {
		fmt.Fprintln(os.Stderr, "simcheck: infrastructure trouble inside runs (not a verdict):")
		for _, l := range infra {
			fmt.Fprintln(os.Stderr, "  "+l)
		}
		return 2
	}

	// violations: one replay file per distinct signature
	sort.Slice(failing, func(i, j int) bool {
		if failing[i].Seed != failing[j].Seed {
			return failing[i].Seed < failing[j].Seed
		}
		return failing[i].Run < failing[j].Run
	})
	findings := loadFindings()
	seenSig := map[string]bool{}
	exit := 0
	nViol := 0
	var knownLines []string
	tree := treeID()
	os.MkdirAll(filepath.Join(verifDir, "replays"), 0755)
	for _, f := range failing {
		sig := f.Violation.Class + " " + f.Violation.Sig
		if seenSig[sig] {
			continue
		}
		seenSig[sig] = true
		known := false
		for _, kf := range findings {
			if kf.Status == "open" && kf.Property == prop && kf.Signature == f.Violation.Sig {
				known = true
				knownLines = append(knownLines, fmt.Sprintf("KNOWN-FINDING: property=%s %s", prop, kf.What))
			}
		}
		if known {
			continue
		}
		if nViol >= 3 {
			continue
		}
		f.Tree = tree
		path := filepath.Join(verifDir, "replays", fmt.Sprintf("%s-%d-%d-%d.json", prop, f.Seed, f.Run, nViol))
		b, _ := json.MarshalIndent(f, "", " ")
		os.WriteFile(path, b, 0644)
		mo, _ := runTool(bin, "-minimise", path)
		fmt.Print(mo)
		ro, code := runTool(bin, "-replay", path, "-prop", prop)
		fmt.Print(ro)
		if code != 1 {
			fmt.Fprintf(os.Stderr, "simcheck: the violation of %s found at seed=%d run=%d does not replay (exit %d): infrastructure trouble, not a verdict\n", prop, f.Seed, f.Run, code)
			return 2
		}
		nViol++
		exit = 1
		fmt.Printf("violation: class=%s %s\n", f.Violation.Class, firstLine(f.Violation.Detail))
		fmt.Printf("VIOLATION property=%s replay=%s\n", prop, path)
	}
	for _, l := range knownLines {
		fmt.Println(l)
	}

	wall := time.Since(start).Seconds()
	gaps := []string{}
	for _, k := range append(append([]string{}, ws.probes["*"]...), ws.probes[prop]...) {
		if tot.Probes[k] == 0 && tot.Faults[k] == 0 {
			gaps = append(gaps, k)
		}
	}
	ev := map[string]any{
		"property_id": prop,
		"tier":        tier,
		"seed":        seed,
		"level":       levelOf(ws),
		"wall_s":      round(wall),
		"violations":  nViol,
		"assumptions": ws.assume,
		"coverage": map[string]any{
			"evaluations":              tot.Runs,
			"distinct_nontrivial":      len(nt),
			"rule":                     ws.rule,
			"samples":                  tot.Samples,
			"runs":                     tot.Runs,
			"seeds":                    seeds,
			"runs_per_hour":            int(float64(tot.Runs) / (wall - buildS) * 3600),
			"scheduler_steps":          tot.Steps,
			"max_steps_in_a_run":       tot.MaxSteps,
			"sim_time_covered_s":       round(float64(tot.SimTimeNs) / 1e9),
			"context_switches":         tot.Switches,
			"forced_preemptions":       tot.Preempts,
			"faults_fired":             tot.Faults,
			"probes":                   tot.Probes,
			"coverage_gaps":            gaps,
			"run_endings":              tot.Ends,
			"distinct_interleavings":   len(all),
			"distinct_schedule_shapes": len(shapes),
			"replay_selfchecks":        tot.ReplayChecks,
			"determinism_check":        fmt.Sprintf("%d runs re-executed in 3 separate processes at GOMAXPROCS 1/4/16: identical history hashes", detN),
			"real_components":          ws.real,
			"stub_components":          ws.stub,
			"world":                    ws.name,
			"tree":                     tree,
			"build_s":                  round(buildS),
			"known_findings_seen":      knownLines,
			"exhaustive":               ws.enum && tot.Enumerated == enumN*len(seeds),
			"enumerated_cases":         enumN,
			"enumerated_cases_run":     tot.Enumerated / len(seeds),
		},
	}
	os.MkdirAll(filepath.Join(verifDir, "evidence"), 0755)
	b, _ := json.MarshalIndent(ev, "", " ")
	if err := os.WriteFile(filepath.Join(verifDir, "evidence", prop+".json"), b, 0644); err != nil {
		fatal("%v", err)
	}
	fmt.Printf("%s %s: %d runs, %d distinct non-trivial histories, %d violations, %.1fs\n", prop, tier, tot.Runs, len(nt), nViol, wall)
	return exit
}

func levelOf(ws *worldSpec) string {
	if ws.level != "" {
		return ws.level
	}
	return "exploration"
}

func round(f float64) float64 { return float64(int64(f*100)) / 100 }

func firstLine(s string) string {
	if i := strings.IndexByte(s, '\n'); i >= 0 {
		return s[:i]
	}
	return s
}

func runTool(bin string, args ...string) (string, int) {
	cmd := exec.Command(bin, args...)
	var out bytes.Buffer
	cmd.Stdout = &out
	cmd.Stderr = &out
	err := cmd.Run()
	code := 0
	if err != nil {
		if ee, ok := err.(*exec.ExitError); ok {
			code = ee.ExitCode()
		} else {
			code = 2
		}
	}
	return out.String(), code
}

func doReplay(path string) int {
	b, err := os.ReadFile(path)
	if err != nil {
		fatal("%v", err)
	}
	var rf kit.ReplayFile
	if err := json.Unmarshal(b, &rf); err != nil {
		fatal("%v", err)
	}
	if rf.World == "procworld" {
		scratch, bin := buildProc()
		defer os.RemoveAll(scratch)
		out, code := runTool(bin, "-replay", path)
		fmt.Print(out)
		if code == 1 {
			fmt.Printf("VIOLATION property=%s replay=%s\n", rf.Property, path)
		}
		return code
	}
	ws, ok := worlds[rf.World]
	if !ok {
		fatal("replay file names unknown world %q", rf.World)
	}
	scratch, bin := build(ws)
	defer os.RemoveAll(scratch)
	out, code := runTool(bin, "-replay", path, "-prop", rf.Property)
	fmt.Print(out)
	if code == 1 {
		fmt.Printf("VIOLATION property=%s replay=%s\n", rf.Property, path)
	}
	return code
}

// ---- procworld (C20): real processes under forced schedules ----

func buildProc() (scratch, bin string) {
	scratch, err := os.MkdirTemp("", "simcheck-procworld-")
	if err != nil {
		fatal("%v", err)
	}
	if err := rewrite.Prepare(repoDir, scratch, filepath.Join(verifDir, "simgo"), nil); err != nil {
		os.RemoveAll(scratch)
		fatal("copying /repo failed: %v", err)
	}
	mod, _ := os.ReadFile(filepath.Join(verifDir, "worlds", "go.mod"))
	modFile := filepath.Join(scratch, "worlds.mod")
	os.WriteFile(modFile, []byte(worldsMod(string(mod), scratch)), 0644)
	sum, _ := os.ReadFile(filepath.Join(repoDir, "go.sum"))
	os.WriteFile(filepath.Join(scratch, "worlds.sum"), sum, 0644)
	bin = filepath.Join(scratch, "procworld")
	cmd := exec.Command("go", "build", "-tags", "verif", "-modfile="+modFile, "-o", bin, "./procworld")
	cmd.Dir = filepath.Join(verifDir, "worlds")
	cmd.Env = goEnv()
	if out, err := cmd.CombinedOutput(); err != nil {
		os.RemoveAll(scratch)
		fatal("building procworld with -tags verif failed (infrastructure, not a verdict):\n%s", out)
	}
	return scratch, bin
}

func checkProc(prop, tier string, seed uint64, runsOverride int, keep bool) int {
	start := time.Now()
	scratch, bin := buildProc()
	if !keep {
		defer os.RemoveAll(scratch)
	}
	n := 40
	if tier == "thorough" {
		n = 1500
	}
	if runsOverride > 0 {
		n = runsOverride
	}
	of := filepath.Join(scratch, "proc.json")
	cmd := exec.Command(bin, "-seed", fmt.Sprint(seed), "-n", fmt.Sprint(n), "-out", of)
	var outb bytes.Buffer
	cmd.Stdout, cmd.Stderr = &outb, &outb
	done := make(chan error, 1)
	cmd.Start()
	go func() { done <- cmd.Wait() }()
	select {
	case err := <-done:
		if err != nil {
			fatal("procworld: %v\n%s", err, tail(outb.String(), 40))
		}
	case <-time.After(2 * time.Hour):
		cmd.Process.Kill()
		fatal("procworld: watchdog expired")
	}
	var st struct {
		Launches   int            `json:"launches"`
		PerKind    map[string]int `json:"per_schedule"`
		Concurrent int            `json:"concurrent_launches"`
		Distinct   int            `json:"distinct_schedules"`
		Failing    []struct {
			Plan      map[string]any     `json:"plan"`
			Peers     []map[string]any   `json:"group_plans"`
			Prior     []map[string]any   `json:"prior_failed_launches"`
			History   [][]map[string]any `json:"history"`
			Violation struct {
				Class  string `json:"class"`
				Detail string `json:"detail"`
				Sig    string `json:"signature"`
			} `json:"violation"`
			Events []string `json:"events"`
		} `json:"failing"`
		Infra   []string `json:"infra"`
		Samples []any    `json:"samples"`
	}
	b, err := os.ReadFile(of)
	if err != nil {
		fatal("%v", err)
	}
	if err := json.Unmarshal(b, &st); err != nil {
		fatal("%v", err)
	}
	if len(st.Infra) > 0 {
		fmt.Fprintln(os.Stderr, "simcheck: infrastructure trouble (not a verdict):", strings.Join(st.Infra, "; "))
		return 2
	}
	findings := loadFindings()
	seen := map[string]bool{}
	exit, nViol, unreplayed := 0, 0, 0
	var knownLines []string
	os.MkdirAll(filepath.Join(verifDir, "replays"), 0755)
	for _, f := range st.Failing {
		if seen[f.Violation.Sig] {
			continue
		}
		seen[f.Violation.Sig] = true
		known := false
		for _, kf := range findings {
			if kf.Status == "open" && kf.Property == prop && kf.Signature == f.Violation.Sig {
				known = true
				knownLines = append(knownLines, fmt.Sprintf("KNOWN-FINDING: property=%s %s", prop, kf.What))
			}
		}
		if known {
			continue
		}
		// the minimised schedule is the single forced launch, alone; a
		// violation inside a burst is replayed as that burst
		plan := f.Plan
		origPlan := map[string]any{}
		for k, v := range plan {
			origPlan[k] = v
		}
		rep := map[string]any{"property": prop, "world": "procworld", "seed": seed, "plan": plan, "violation": f.Violation, "events": f.Events, "tree": treeID()}
		if b, _ := plan["burst"].(bool); b && len(f.Peers) > 1 {
			rep["plans"] = f.Peers
		} else {
			plan["group"] = 0
			plan["name"] = "h0"
		}
		if len(f.Prior) > 0 {
			// a history: the failed launches the caller had made before
			rep["prior"] = f.Prior
		}
		path := filepath.Join(verifDir, "replays", fmt.Sprintf("%s-%d-%d.json", prop, seed, nViol))
		rb, _ := json.MarshalIndent(rep, "", " ")
		os.WriteFile(path, rb, 0644)
		ro, code := runTool(bin, "-replay", path)
		if code == 0 && len(f.History) > 0 {
			// the short form (failed launches, then this one) did not show it:
			// the violation depends on more of what the caller did before;
			// replay the caller's complete history
			delete(rep, "prior")
			rep["history"] = f.History
			rep["plan"] = origPlan
			if len(f.Peers) > 1 {
				rep["plans"] = f.Peers
			}
			rb, _ = json.MarshalIndent(rep, "", " ")
			os.WriteFile(path, rb, 0644)
			ro, code = runTool(bin, "-replay", path)
		}
		fmt.Print(ro)
		if code != 1 {
			// real processes: the micro-timing inside a forced order is the
			// kernel's. An observation that does not come back on replay is not
			// reported; it only matters (exit 2) if none of the observed
			// violations reproduces.
			fmt.Fprintf(os.Stderr, "simcheck: an observed violation (class %s: %s) did not reproduce on replay (exit %d) and is not reported\n", f.Violation.Class, f.Violation.Detail, code)
			os.Remove(path)
			unreplayed++
			continue
		}
		nViol++
		exit = 1
		fmt.Printf("violation: class=%s %s\n", f.Violation.Class, f.Violation.Detail)
		fmt.Printf("VIOLATION property=%s replay=%s\n", prop, path)
	}
	if nViol == 0 && unreplayed > 0 {
		fmt.Fprintf(os.Stderr, "simcheck: %d observed violation(s), none of which replays: infrastructure trouble, not a verdict\n", unreplayed)
		return 2
	}
	for _, l := range knownLines {
		fmt.Println(l)
	}
	wall := time.Since(start).Seconds()
	ev := map[string]any{
		"property_id": prop, "tier": tier, "seed": seed, "level": "exploration", "wall_s": round(wall), "violations": nViol,
		"assumptions": []string{"schedule forcing over real processes: the property-relevant order space (position of Done() relative to the launcher's steps; of Launch's return relative to the daemon's pre-Done work) is covered by four forced schedules; kernel micro-timing inside a forced order is not controlled", "the pause hook (build tag verif) only adds a wait; with the tag off it is an empty function"},
		"coverage": map[string]any{
			"evaluations": st.Launches, "distinct_nontrivial": st.Distinct,
			"rule":                "one case = one daemon.Launch with three real processes under a forced schedule: S1 natural, S2 Done() delivered while the launcher is parked before it listens, S3 daemon parked before Done() (Launch must still be waiting after 150ms), S4 launcher released first and daemon 50ms later, S5 one daemon per caller that takes seven seconds to reach Done() (alongside everything else), S6 (eight per caller, one per 40 launches in the thorough tier) a one-shot daemon that stops its launcher with SIGSTOP once the launcher waits, calls Done() and exits at once - the launcher is continued when the daemon is gone and finds both events waiting, S0 (a fault, about one group in five) the handler exits before Done() and the launches that follow in the same caller are the ones checked; 0..5 marker files written before Done(); the launcher process lingering 0, 3 or 40 ms between launch() returning and its exit; alone, 2..4 launches concurrently under forced schedules, or bursts of 2..8 natural-order launches of different handlers released together; distinct = distinct (schedule, markers, concurrency width); all are non-trivial (a forced or concurrent order)",
			"samples":             st.Samples,
			"per_schedule":        st.PerKind,
			"concurrent_launches": st.Concurrent,
			"runs_per_hour":       int(float64(st.Launches) / wall * 3600),
			"faults_fired":        map[string]int{"launcher.parked_before_listening": st.PerKind["S2"] + st.PerKind["S4"], "daemon.slow_before_done": st.PerKind["S3"] + st.PerKind["S4"], "daemon.exits_before_done": st.PerKind["S0"], "daemon.takes_seven_seconds": st.PerKind["S5"], "launcher.stopped_across_done_and_exit_of_one_shot_daemon": st.PerKind["S6"]},
			"real_components":     []string{"daemon/daemon.go", "os/exec, os/signal, the Go runtime", "the kernel (fork/exec, SIGINT, reparenting)"},
			"stub_components":     []string{"none: the order of the three processes is forced through gate files (one guarded pause hook in daemon.launch, harness code in the daemon's handler and in the caller)"},
			"tree":                treeID(),
			"known_findings_seen": knownLines,
			"exhaustive":          false,
		},
	}
	os.MkdirAll(filepath.Join(verifDir, "evidence"), 0755)
	eb, _ := json.MarshalIndent(ev, "", " ")
	os.WriteFile(filepath.Join(verifDir, "evidence", prop+".json"), eb, 0644)
	fmt.Printf("%s %s: %d launches (%v), %d violations, %.1fs\n", prop, tier, st.Launches, st.PerKind, nViol, wall)
	return exit
}
