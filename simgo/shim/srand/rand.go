// Package srand replaces "crypto/rand" in rewritten code: bytes come from a
// PRNG whose seed is one of the run's recorded choices.
package srand

import (
	"io"

	"simgo/simrt"
)

type reader struct{}

func (reader) Read(p []byte) (int, error) {
	var s uint64 = 0x243F6A8885A308D3
	if simrt.Active() {
		s ^= uint64(simrt.Choose("rand.seed", 1<<16)) * 0x9E3779B97F4A7C15
	}
	for i := range p {
		s += 0x9E3779B97F4A7C15
		z := s
		z = (z ^ (z >> 30)) * 0xBF58476D1CE4E5B9
		z = (z ^ (z >> 27)) * 0x94D049BB133111EB
		p[i] = byte(z ^ (z >> 31))
	}
	return len(p), nil
}

var Reader io.Reader = reader{}

func Read(b []byte) (int, error) { return io.ReadFull(Reader, b) }
