// Package satomic replaces "sync/atomic" in rewritten code.
package satomic

import (
	"unsafe"

	"simgo/simrt"
)

type (
	Int32   = simrt.Int32
	Int64   = simrt.Int64
	Uint32  = simrt.Uint32
	Uint64  = simrt.Uint64
	Uintptr = simrt.Uintptr
	Bool    = simrt.Bool
	Value   = simrt.Value
)

// Pointer is atomic.Pointer[T].
type Pointer[T any] struct{ simrt.Pointer[T] }

func LoadInt32(p *int32) int32                                { return simrt.AtomLoad(p) }
func StoreInt32(p *int32, v int32)                            { simrt.AtomStore(p, v) }
func AddInt32(p *int32, d int32) int32                        { return simrt.AtomAdd(p, d) }
func SwapInt32(p *int32, v int32) int32                       { return simrt.AtomSwap(p, v) }
func CompareAndSwapInt32(p *int32, old, new int32) bool       { return simrt.AtomCAS(p, old, new) }
func AndInt32(p *int32, m int32) int32                        { return simrt.AtomAnd(p, m) }
func OrInt32(p *int32, m int32) int32                         { return simrt.AtomOr(p, m) }
func LoadInt64(p *int64) int64                                { return simrt.AtomLoad(p) }
func StoreInt64(p *int64, v int64)                            { simrt.AtomStore(p, v) }
func AddInt64(p *int64, d int64) int64                        { return simrt.AtomAdd(p, d) }
func SwapInt64(p *int64, v int64) int64                       { return simrt.AtomSwap(p, v) }
func CompareAndSwapInt64(p *int64, old, new int64) bool       { return simrt.AtomCAS(p, old, new) }
func AndInt64(p *int64, m int64) int64                        { return simrt.AtomAnd(p, m) }
func OrInt64(p *int64, m int64) int64                         { return simrt.AtomOr(p, m) }
func LoadUint32(p *uint32) uint32                             { return simrt.AtomLoad(p) }
func StoreUint32(p *uint32, v uint32)                         { simrt.AtomStore(p, v) }
func AddUint32(p *uint32, d uint32) uint32                    { return simrt.AtomAdd(p, d) }
func SwapUint32(p *uint32, v uint32) uint32                   { return simrt.AtomSwap(p, v) }
func CompareAndSwapUint32(p *uint32, old, new uint32) bool    { return simrt.AtomCAS(p, old, new) }
func AndUint32(p *uint32, m uint32) uint32                    { return simrt.AtomAnd(p, m) }
func OrUint32(p *uint32, m uint32) uint32                     { return simrt.AtomOr(p, m) }
func LoadUint64(p *uint64) uint64                             { return simrt.AtomLoad(p) }
func StoreUint64(p *uint64, v uint64)                         { simrt.AtomStore(p, v) }
func AddUint64(p *uint64, d uint64) uint64                    { return simrt.AtomAdd(p, d) }
func SwapUint64(p *uint64, v uint64) uint64                   { return simrt.AtomSwap(p, v) }
func CompareAndSwapUint64(p *uint64, old, new uint64) bool    { return simrt.AtomCAS(p, old, new) }
func AndUint64(p *uint64, m uint64) uint64                    { return simrt.AtomAnd(p, m) }
func OrUint64(p *uint64, m uint64) uint64                     { return simrt.AtomOr(p, m) }
func LoadUintptr(p *uintptr) uintptr                          { return simrt.AtomLoad(p) }
func StoreUintptr(p *uintptr, v uintptr)                      { simrt.AtomStore(p, v) }
func AddUintptr(p *uintptr, d uintptr) uintptr                { return simrt.AtomAdd(p, d) }
func SwapUintptr(p *uintptr, v uintptr) uintptr               { return simrt.AtomSwap(p, v) }
func CompareAndSwapUintptr(p *uintptr, old, new uintptr) bool { return simrt.AtomCAS(p, old, new) }
func AndUintptr(p *uintptr, m uintptr) uintptr                { return simrt.AtomAnd(p, m) }
func OrUintptr(p *uintptr, m uintptr) uintptr                 { return simrt.AtomOr(p, m) }
func LoadPointer(p *unsafe.Pointer) unsafe.Pointer            { return simrt.AtomLoadPointer(p) }
func StorePointer(p *unsafe.Pointer, v unsafe.Pointer)        { simrt.AtomStorePointer(p, v) }
func SwapPointer(p *unsafe.Pointer, v unsafe.Pointer) unsafe.Pointer {
	return simrt.AtomSwapPointer(p, v)
}
func CompareAndSwapPointer(p *unsafe.Pointer, old, new unsafe.Pointer) bool {
	return simrt.AtomCASPointer(p, old, new)
}
