// Package ssync replaces "sync" in rewritten code.
package ssync

import "simgo/simrt"

type (
	Mutex     = simrt.Mutex
	RWMutex   = simrt.RWMutex
	WaitGroup = simrt.WaitGroup
	Once      = simrt.Once
	Cond      = simrt.Cond
	Pool      = simrt.Pool
	Map       = simrt.Map
	Locker    = simrt.Locker
)

func NewCond(l Locker) *Cond { return simrt.NewCond(l) }

func OnceFunc(f func()) func()                                 { return simrt.OnceFunc(f) }
func OnceValue[T any](f func() T) func() T                     { return simrt.OnceValue(f) }
func OnceValues[T1, T2 any](f func() (T1, T2)) func() (T1, T2) { return simrt.OnceValues(f) }
