// Package sctx replaces "context" in rewritten code (tasklane only).
package sctx

import (
	"time"

	"simgo/simrt"
)

type (
	Context         = simrt.Context
	CancelFunc      = simrt.CancelFunc
	CancelCauseFunc = simrt.CancelCauseFunc
)

var (
	Canceled         = simrt.Canceled
	DeadlineExceeded = simrt.DeadlineExceeded
)

func Background() Context { return simrt.Background() }
func TODO() Context       { return simrt.TODO() }

func WithCancel(p Context) (Context, CancelFunc)           { return simrt.WithCancel(p) }
func WithCancelCause(p Context) (Context, CancelCauseFunc) { return simrt.WithCancelCause(p) }
func WithDeadline(p Context, d time.Time) (Context, CancelFunc) {
	return simrt.WithDeadline(p, d)
}
func WithDeadlineCause(p Context, d time.Time, cause error) (Context, CancelFunc) {
	return simrt.WithDeadlineCause(p, d, cause)
}
func WithTimeout(p Context, d time.Duration) (Context, CancelFunc) {
	return simrt.WithTimeout(p, d)
}
func WithTimeoutCause(p Context, d time.Duration, cause error) (Context, CancelFunc) {
	return simrt.WithTimeoutCause(p, d, cause)
}
func WithValue(p Context, k, v any) Context { return simrt.WithValue(p, k, v) }
func WithoutCancel(p Context) Context       { return simrt.WithoutCancel(p) }
func Cause(c Context) error                 { return simrt.Cause(c) }
func AfterFunc(c Context, f func()) (stop func() bool) {
	return simrt.CtxAfterFunc(c, f)
}
