// Package sos replaces "os" in util/osutil/file.go: a small in-memory
// POSIX-like file system with fault plans. Everything a file-copy routine can
// reasonably use is here; the rest of package os is forwarded unchanged
// (zz_forward.go).
//
// Model: inodes (regular with link count, directory, symlink), path
// resolution with "." / ".." / symlinks / relative paths against a cwd, open
// file descriptions with offsets, O_TRUNC truncating at open time, rename
// replacing the destination name atomically (a symlink destination is
// replaced, not followed; onto a directory fails; two names of one inode is a
// successful no-op), unlink, two devices so that rename/link across them give
// EXDEV. No write-back cache and no power-loss model: the property this seam
// serves speaks about return values and contents, not about durability.
package sos

import (
	"errors"
	"io"
	"io/fs"
	"os"
	"path"
	"strings"
	"syscall"
	"time"
)

type kind int

const (
	kFile kind = iota
	kDir
	kSymlink
)

type Inode struct {
	ID      int
	Kind    kind
	Data    []byte
	Target  string
	Nlink   int
	Dev     int
	Mode    fs.FileMode
	Entries map[string]*Inode
}

func (n *Inode) IsRegular() bool { return n != nil && n.Kind == kFile }

// Call is one primitive file-system call, as recorded in the trace.
type Call struct {
	Op    string // open create read write close rename unlink stat lstat link symlink mkdir truncate readlink
	Path  string
	Path2 string
	N     int
	Err   string
	Fault string
}

// Fault makes the idx-th primitive call fail.
type Fault struct {
	Errno   syscall.Errno
	Partial int // for write: bytes written before the error
}

type FS struct {
	Root   *Inode
	Cwd    string
	nextID int
	Trace  []Call
	Plan   map[int]Fault
	// PlanK: fault by choice number, resolved against the primitive that the
	// idx-th call turns out to be (errno = Faults[op][k % len]; for writes the
	// quotient selects how much is written before the error).
	PlanK   map[int]int
	Fired   []string
	OnCall  func(idx int, c *Call) // observer (before the call takes effect)
	devs    map[string]int         // path prefix -> device
	nOpen   int
	MaxOpen int
}

var cur *FS

// Reset installs a fresh file system with /, /tmp, /work (cwd) on device 1 and
// /mnt2 on device 2.
func Reset() *FS {
	f := &FS{Cwd: "/work", Plan: map[int]Fault{}, PlanK: map[int]int{}, devs: map[string]int{"/mnt2": 2}}
	f.Root = f.newInode(kDir, 1)
	for _, d := range []string{"/tmp", "/work", "/mnt2"} {
		if err := f.mkdir(d); err != nil {
			panic(err)
		}
	}
	cur = f
	return f
}

func (f *FS) newInode(k kind, dev int) *Inode {
	f.nextID++
	n := &Inode{ID: f.nextID, Kind: k, Dev: dev, Mode: 0644}
	if k == kDir {
		n.Entries = map[string]*Inode{}
		n.Mode = fs.ModeDir | 0755
	}
	if k == kSymlink {
		n.Mode = fs.ModeSymlink | 0777
	}
	return n
}

func (f *FS) abs(p string) string {
	if !strings.HasPrefix(p, "/") {
		p = f.Cwd + "/" + p
	}
	return p
}

func (f *FS) devOf(abs string) int {
	for pre, d := range f.devs {
		if abs == pre || strings.HasPrefix(abs, pre+"/") {
			return d
		}
	}
	return 1
}

// walk resolves p. It returns the parent directory, the final name and the
// inode the name refers to (nil if it does not exist). followLast says whether
// a symlink in the last component is followed.
func (f *FS) walk(p string, followLast bool, depth int) (dir *Inode, name string, n *Inode, abs string, err error) {
	if p == "" {
		return nil, "", nil, "", syscall.ENOENT
	}
	if depth > 40 {
		return nil, "", nil, "", syscall.ELOOP
	}
	full := f.abs(p)
	trailing := strings.HasSuffix(full, "/") && full != "/"
	parts := strings.Split(full, "/")
	curDir := f.Root
	var stack []*Inode
	var names []string
	var comps []string
	for _, c := range parts {
		if c != "" {
			comps = append(comps, c)
		}
	}
	if len(comps) == 0 {
		return nil, "", f.Root, "/", nil
	}
	for i, c := range comps {
		last := i == len(comps)-1
		switch c {
		case ".":
			if last {
				return f.parentOf(stack), lastName(names), curDir, "/" + strings.Join(names, "/"), nil
			}
			continue
		case "..":
			if len(stack) > 0 {
				curDir = stack[len(stack)-1]
				stack = stack[:len(stack)-1]
				names = names[:len(names)-1]
			}
			if last {
				return f.parentOf(stack), lastName(names), curDir, "/" + strings.Join(names, "/"), nil
			}
			continue
		}
		child := curDir.Entries[c]
		here := "/" + strings.Join(append(append([]string{}, names...), c), "/")
		if child != nil && child.Kind == kSymlink && (!last || followLast || trailing) {
			target := child.Target
			if !strings.HasPrefix(target, "/") {
				target = "/" + strings.Join(names, "/") + "/" + target
			}
			rest := strings.Join(comps[i+1:], "/")
			if rest != "" {
				target += "/" + rest
			}
			return f.walk(target, followLast, depth+1)
		}
		if last {
			if trailing && child != nil && child.Kind != kDir {
				return nil, "", nil, "", syscall.ENOTDIR
			}
			return curDir, c, child, here, nil
		}
		if child == nil {
			return nil, "", nil, "", syscall.ENOENT
		}
		if child.Kind != kDir {
			return nil, "", nil, "", syscall.ENOTDIR
		}
		stack = append(stack, curDir)
		names = append(names, c)
		curDir = child
	}
	return nil, "", nil, "", syscall.ENOENT
}

func (f *FS) parentOf(stack []*Inode) *Inode {
	if len(stack) == 0 {
		return f.Root
	}
	return stack[len(stack)-1]
}

func lastName(names []string) string {
	if len(names) == 0 {
		return ""
	}
	return names[len(names)-1]
}

// call records a primitive call and consults the fault plan.
func (f *FS) call(op, p, p2 string) (idx int, c *Call, fault *Fault) {
	idx = len(f.Trace)
	f.Trace = append(f.Trace, Call{Op: op, Path: p, Path2: p2})
	c = &f.Trace[idx]
	if f.OnCall != nil {
		f.OnCall(idx, c)
	}
	if k, ok := f.PlanK[idx]; ok && len(Faults[op]) > 0 {
		list := Faults[op]
		fl := Fault{Errno: list[k%len(list)], Partial: -1 - (k/len(list))%3}
		c.Fault = fl.Errno.Error()
		f.Fired = append(f.Fired, op+":"+errnoName(fl.Errno))
		return idx, c, &fl
	}
	if fl, ok := f.Plan[idx]; ok && Applicable(op, fl.Errno) {
		c.Fault = fl.Errno.Error()
		f.Fired = append(f.Fired, op+":"+errnoName(fl.Errno))
		return idx, c, &fl
	}
	return idx, c, nil
}

func errnoName(e syscall.Errno) string {
	switch e {
	case syscall.EIO:
		return "EIO"
	case syscall.ENOSPC:
		return "ENOSPC"
	case syscall.EACCES:
		return "EACCES"
	case syscall.EXDEV:
		return "EXDEV"
	case syscall.EPERM:
		return "EPERM"
	case syscall.EBUSY:
		return "EBUSY"
	case syscall.EMFILE:
		return "EMFILE"
	}
	return e.Error()
}

// Faults lists the errnos that can be injected into each primitive.
var Faults = map[string][]syscall.Errno{
	"open":     {syscall.EACCES, syscall.EMFILE},
	"create":   {syscall.EACCES, syscall.ENOSPC},
	"read":     {syscall.EIO},
	"write":    {syscall.ENOSPC, syscall.EIO},
	"rename":   {syscall.EXDEV, syscall.EPERM},
	"unlink":   {syscall.EPERM, syscall.EBUSY},
	"link":     {syscall.EXDEV, syscall.EPERM},
	"stat":     {syscall.EACCES},
	"lstat":    {syscall.EACCES},
	"fstat":    {syscall.EIO},
	"truncate": {syscall.EIO},
}

func Applicable(op string, e syscall.Errno) bool {
	for _, x := range Faults[op] {
		if x == e {
			return true
		}
	}
	return false
}

func (f *FS) mkdir(p string) error {
	dir, name, n, abs, err := f.walk(p, false, 0)
	if err != nil {
		return err
	}
	if n != nil {
		return syscall.EEXIST
	}
	dir.Entries[name] = f.newInode(kDir, f.devOf(abs))
	return nil
}

// ---- harness helpers (not part of the os API) ----

func (f *FS) WriteFile(p string, data []byte) *Inode {
	dir, name, n, abs, err := f.walk(p, true, 0)
	if err != nil {
		panic("sos.WriteFile " + p + ": " + err.Error())
	}
	if n == nil {
		n = f.newInode(kFile, f.devOf(abs))
		n.Nlink = 1
		dir.Entries[name] = n
	}
	n.Data = append([]byte(nil), data...)
	return n
}

func (f *FS) MkdirAll(p string) {
	cur := ""
	for _, c := range strings.Split(strings.Trim(f.abs(p), "/"), "/") {
		cur += "/" + c
		if err := f.mkdir(cur); err != nil && err != syscall.EEXIST {
			panic(err)
		}
	}
}

func (f *FS) SymlinkRaw(target, linkPath string) {
	dir, name, _, _, err := f.walk(linkPath, false, 0)
	if err != nil {
		panic(err)
	}
	n := f.newInode(kSymlink, dir.Dev)
	n.Target = target
	n.Nlink = 1
	dir.Entries[name] = n
}

func (f *FS) LinkRaw(oldp, newp string) {
	_, _, n, _, err := f.walk(oldp, false, 0)
	if err != nil || n == nil {
		panic("sos.LinkRaw: no " + oldp)
	}
	dir, name, _, _, err := f.walk(newp, false, 0)
	if err != nil {
		panic(err)
	}
	dir.Entries[name] = n
	n.Nlink++
}

// RemoveRaw removes the name p (not following a final symlink) if it exists.
func (f *FS) RemoveRaw(p string) {
	dir, name, n, _, err := f.walk(p, false, 0)
	if err != nil || n == nil {
		return
	}
	delete(dir.Entries, name)
	n.Nlink--
}

// Lookup returns the inode a path resolves to (following symlinks), or nil.
func (f *FS) Lookup(p string) *Inode {
	_, _, n, _, err := f.walk(p, true, 0)
	if err != nil {
		return nil
	}
	return n
}

// LookupNoFollow returns the inode of the name itself.
func (f *FS) LookupNoFollow(p string) *Inode {
	_, _, n, _, err := f.walk(p, false, 0)
	if err != nil {
		return nil
	}
	return n
}

// ---- the os API ----

type File struct {
	fs     *FS
	n      *Inode
	name   string
	off    int64
	flag   int
	closed bool
}

const (
	O_RDONLY = os.O_RDONLY
	O_WRONLY = os.O_WRONLY
	O_RDWR   = os.O_RDWR
	O_APPEND = os.O_APPEND
	O_CREATE = os.O_CREATE
	O_EXCL   = os.O_EXCL
	O_SYNC   = os.O_SYNC
	O_TRUNC  = os.O_TRUNC
)

func pathErr(op, p string, err error) error { return &os.PathError{Op: op, Path: p, Err: err} }

func Open(name string) (*File, error) { return OpenFile(name, O_RDONLY, 0) }

func Create(name string) (*File, error) {
	return OpenFile(name, O_RDWR|O_CREATE|O_TRUNC, 0666)
}

func OpenFile(name string, flag int, perm fs.FileMode) (*File, error) {
	f := cur
	op := "open"
	if flag&O_CREATE != 0 {
		op = "create"
	}
	_, c, fault := f.call(op, name, "")
	fail := func(err error) (*File, error) {
		c.Err = err.Error()
		return nil, pathErr("open", name, err)
	}
	if fault != nil {
		return fail(fault.Errno)
	}
	dir, base, n, abs, err := f.walk(name, flag&(O_CREATE|O_EXCL) != O_CREATE|O_EXCL, 0)
	if err != nil {
		return fail(err)
	}
	if n == nil {
		if flag&O_CREATE == 0 {
			return fail(syscall.ENOENT)
		}
		n = f.newInode(kFile, f.devOf(abs))
		n.Nlink = 1
		n.Mode = perm &^ 022
		dir.Entries[base] = n
	} else {
		if flag&O_CREATE != 0 && flag&O_EXCL != 0 {
			return fail(syscall.EEXIST)
		}
		if n.Kind == kDir && flag&(O_WRONLY|O_RDWR) != 0 {
			return fail(syscall.EISDIR)
		}
		if n.Kind == kSymlink {
			return fail(syscall.ELOOP)
		}
	}
	if flag&O_TRUNC != 0 && n.Kind == kFile {
		n.Data = n.Data[:0:0]
	}
	f.nOpen++
	return &File{fs: f, n: n, name: name, flag: flag}, nil
}

func (fl *File) Name() string { return fl.name }

func (fl *File) Read(p []byte) (int, error) {
	if fl == nil {
		return 0, os.ErrInvalid
	}
	_, c, fault := fl.fs.call("read", fl.name, "")
	if fl.closed {
		c.Err = "closed"
		return 0, pathErr("read", fl.name, os.ErrClosed)
	}
	if fl.flag&(O_WRONLY) != 0 {
		return 0, pathErr("read", fl.name, syscall.EBADF)
	}
	if fl.n.Kind == kDir {
		return 0, pathErr("read", fl.name, syscall.EISDIR)
	}
	if fault != nil {
		c.Err = fault.Errno.Error()
		return 0, pathErr("read", fl.name, fault.Errno)
	}
	if fl.off >= int64(len(fl.n.Data)) {
		if len(p) == 0 {
			return 0, nil
		}
		return 0, io.EOF
	}
	n := copy(p, fl.n.Data[fl.off:])
	fl.off += int64(n)
	c.N = n
	return n, nil
}

func (fl *File) Write(p []byte) (int, error) {
	if fl == nil {
		return 0, os.ErrInvalid
	}
	_, c, fault := fl.fs.call("write", fl.name, "")
	if fl.closed {
		c.Err = "closed"
		return 0, pathErr("write", fl.name, os.ErrClosed)
	}
	if fl.flag&(O_WRONLY|O_RDWR) == 0 {
		return 0, pathErr("write", fl.name, syscall.EBADF)
	}
	data := p
	var ferr error
	if fault != nil {
		k := fault.Partial
		switch k { // negative: relative amounts (see PlanK)
		case -1:
			k = 0
		case -2:
			k = len(p) / 2
		case -3:
			k = len(p) - 1
		}
		if k > len(p) {
			k = len(p)
		}
		if k < 0 {
			k = 0
		}
		data = p[:k]
		ferr = pathErr("write", fl.name, fault.Errno)
		c.Err = fault.Errno.Error()
	}
	if fl.flag&O_APPEND != 0 {
		fl.off = int64(len(fl.n.Data))
	}
	if grow := fl.off + int64(len(data)) - int64(len(fl.n.Data)); grow > 0 {
		fl.n.Data = append(fl.n.Data, make([]byte, grow)...)
	}
	copy(fl.n.Data[fl.off:], data)
	fl.off += int64(len(data))
	c.N = len(data)
	return len(data), ferr
}

func (fl *File) WriteString(s string) (int, error) { return fl.Write([]byte(s)) }

// ReadFrom and WriteTo: what io.Copy uses when one side is a file. Like the
// real ones after their kernel fast paths decline, they copy through a 32 KiB
// buffer with plain reads and writes (each a call of the trace).
func (fl *File) ReadFrom(r io.Reader) (int64, error) {
	return io.Copy(fileWriterOnly{fl}, r)
}

func (fl *File) WriteTo(w io.Writer) (int64, error) {
	return io.Copy(w, fileReaderOnly{fl})
}

type fileWriterOnly struct{ f *File }

func (w fileWriterOnly) Write(p []byte) (int, error) { return w.f.Write(p) }

type fileReaderOnly struct{ f *File }

func (r fileReaderOnly) Read(p []byte) (int, error) { return r.f.Read(p) }

// ReadAt and WriteAt: positional I/O (pread / pwrite), the file offset is not
// moved; each underlying read or write is one call of the trace.
func (fl *File) ReadAt(p []byte, off int64) (n int, err error) {
	if fl == nil {
		return 0, os.ErrInvalid
	}
	if off < 0 {
		return 0, pathErr("readat", fl.name, errors.New("negative offset"))
	}
	saved := fl.off
	defer func() { fl.off = saved }()
	fl.off = off
	for n < len(p) {
		m, e := fl.Read(p[n:])
		n += m
		if e != nil {
			return n, e
		}
		if m == 0 {
			return n, io.EOF
		}
	}
	return n, nil
}

func (fl *File) WriteAt(p []byte, off int64) (n int, err error) {
	if fl == nil {
		return 0, os.ErrInvalid
	}
	if off < 0 {
		return 0, pathErr("writeat", fl.name, errors.New("negative offset"))
	}
	if fl.flag&O_APPEND != 0 {
		return 0, errors.New("os: invalid use of WriteAt on file opened with O_APPEND")
	}
	saved := fl.off
	defer func() { fl.off = saved }()
	fl.off = off
	return fl.Write(p)
}

func (fl *File) Seek(offset int64, whence int) (int64, error) {
	if fl.closed {
		return 0, pathErr("seek", fl.name, os.ErrClosed)
	}
	switch whence {
	case io.SeekStart:
		fl.off = offset
	case io.SeekCurrent:
		fl.off += offset
	case io.SeekEnd:
		fl.off = int64(len(fl.n.Data)) + offset
	}
	if fl.off < 0 {
		fl.off = 0
		return 0, pathErr("seek", fl.name, syscall.EINVAL)
	}
	return fl.off, nil
}

func (fl *File) Close() error {
	if fl == nil {
		return os.ErrInvalid
	}
	fl.fs.call("close", fl.name, "")
	if fl.closed {
		return pathErr("close", fl.name, os.ErrClosed)
	}
	fl.closed = true
	fl.fs.nOpen--
	return nil
}

func (fl *File) Sync() error { return nil }

func (fl *File) Truncate(size int64) error {
	_, c, fault := fl.fs.call("truncate", fl.name, "")
	if fault != nil {
		c.Err = fault.Errno.Error()
		return pathErr("truncate", fl.name, fault.Errno)
	}
	if size < int64(len(fl.n.Data)) {
		fl.n.Data = fl.n.Data[:size]
	} else {
		fl.n.Data = append(fl.n.Data, make([]byte, size-int64(len(fl.n.Data)))...)
	}
	return nil
}

func (fl *File) Stat() (fs.FileInfo, error) {
	if fl == nil {
		return nil, os.ErrInvalid
	}
	_, c, fault := fl.fs.call("fstat", fl.name, "")
	if fault != nil {
		c.Err = fault.Errno.Error()
		return nil, pathErr("stat", fl.name, fault.Errno)
	}
	return &info{n: fl.n, name: path.Base(fl.name)}, nil
}

func (fl *File) Chmod(m fs.FileMode) error { fl.n.Mode = fl.n.Mode&fs.ModeType | m.Perm(); return nil }

type info struct {
	n    *Inode
	name string
}

func (i *info) Name() string       { return i.name }
func (i *info) Size() int64        { return int64(len(i.n.Data)) }
func (i *info) Mode() fs.FileMode  { return i.n.Mode }
func (i *info) ModTime() time.Time { return time.Unix(1692146115, 0) }
func (i *info) IsDir() bool        { return i.n.Kind == kDir }
func (i *info) Sys() any           { return i.n }

func statCommon(op, name string, follow bool) (fs.FileInfo, error) {
	f := cur
	_, c, fault := f.call(op, name, "")
	if fault != nil {
		c.Err = fault.Errno.Error()
		return nil, pathErr(op, name, fault.Errno)
	}
	_, base, n, _, err := f.walk(name, follow, 0)
	if err == nil && n == nil {
		err = syscall.ENOENT
	}
	if err != nil {
		c.Err = err.Error()
		return nil, pathErr(op, name, err)
	}
	return &info{n: n, name: base}, nil
}

func Stat(name string) (fs.FileInfo, error)  { return statCommon("stat", name, true) }
func Lstat(name string) (fs.FileInfo, error) { return statCommon("lstat", name, false) }

func SameFile(a, b fs.FileInfo) bool {
	x, ok1 := a.(*info)
	y, ok2 := b.(*info)
	return ok1 && ok2 && x.n == y.n
}

func Rename(oldp, newp string) error {
	f := cur
	_, c, fault := f.call("rename", oldp, newp)
	fail := func(err error) error {
		c.Err = err.Error()
		return &os.LinkError{Op: "rename", Old: oldp, New: newp, Err: err}
	}
	// os.Rename looks before it calls rename(2): a new name that is a directory
	// is refused with EEXIST (an error about the old name comes first), so the
	// kernel's own EISDIR / ENOTEMPTY are never seen through package os
	if _, _, nn0, _, err0 := f.walk(newp, false, 0); err0 == nil && nn0 != nil && nn0.Kind == kDir {
		_, _, on0, _, oerr := f.walk(oldp, false, 0)
		if oerr != nil {
			return fail(oerr)
		}
		if on0 == nil {
			return fail(syscall.ENOENT)
		}
		if newp == oldp || on0 != nn0 {
			return fail(syscall.EEXIST)
		}
	}
	if fault != nil {
		return fail(fault.Errno)
	}
	odir, oname, on, _, err := f.walk(oldp, false, 0)
	if err != nil {
		return fail(err)
	}
	if on == nil {
		return fail(syscall.ENOENT)
	}
	ndir, nname, nn, nabs, err := f.walk(newp, false, 0)
	if err != nil {
		return fail(err)
	}
	if f.devOf(nabs) != on.Dev {
		return fail(syscall.EXDEV)
	}
	if nn == on {
		return nil // two names of one file: rename(2) does nothing
	}
	if nn != nil {
		switch {
		case nn.Kind == kDir && on.Kind != kDir:
			return fail(syscall.EISDIR)
		case nn.Kind != kDir && on.Kind == kDir:
			return fail(syscall.ENOTDIR)
		case nn.Kind == kDir && len(nn.Entries) > 0:
			return fail(syscall.ENOTEMPTY)
		}
		nn.Nlink--
	}
	ndir.Entries[nname] = on
	delete(odir.Entries, oname)
	return nil
}

func Remove(name string) error {
	f := cur
	_, c, fault := f.call("unlink", name, "")
	fail := func(err error) error {
		c.Err = err.Error()
		return pathErr("remove", name, err)
	}
	if fault != nil {
		return fail(fault.Errno)
	}
	dir, base, n, _, err := f.walk(name, false, 0)
	if err != nil {
		return fail(err)
	}
	if n == nil {
		return fail(syscall.ENOENT)
	}
	if n.Kind == kDir && len(n.Entries) > 0 {
		return fail(syscall.ENOTEMPTY)
	}
	delete(dir.Entries, base)
	n.Nlink--
	return nil
}

func RemoveAll(name string) error {
	f := cur
	dir, base, n, _, err := f.walk(name, false, 0)
	if err != nil || n == nil {
		return nil
	}
	f.call("unlink", name, "")
	delete(dir.Entries, base)
	return nil
}

func Link(oldp, newp string) error {
	f := cur
	_, c, fault := f.call("link", oldp, newp)
	fail := func(err error) error {
		c.Err = err.Error()
		return &os.LinkError{Op: "link", Old: oldp, New: newp, Err: err}
	}
	if fault != nil {
		return fail(fault.Errno)
	}
	_, _, on, _, err := f.walk(oldp, false, 0)
	if err != nil {
		return fail(err)
	}
	if on == nil {
		return fail(syscall.ENOENT)
	}
	ndir, nname, nn, nabs, err := f.walk(newp, false, 0)
	if err != nil {
		return fail(err)
	}
	if nn != nil {
		return fail(syscall.EEXIST)
	}
	if f.devOf(nabs) != on.Dev {
		return fail(syscall.EXDEV)
	}
	ndir.Entries[nname] = on
	on.Nlink++
	return nil
}

func Symlink(target, linkp string) error {
	f := cur
	f.call("symlink", target, linkp)
	dir, name, n, _, err := f.walk(linkp, false, 0)
	if err != nil {
		return &os.LinkError{Op: "symlink", Old: target, New: linkp, Err: err}
	}
	if n != nil {
		return &os.LinkError{Op: "symlink", Old: target, New: linkp, Err: syscall.EEXIST}
	}
	s := f.newInode(kSymlink, dir.Dev)
	s.Target, s.Nlink = target, 1
	dir.Entries[name] = s
	return nil
}

func Readlink(name string) (string, error) {
	f := cur
	f.call("readlink", name, "")
	_, _, n, _, err := f.walk(name, false, 0)
	if err != nil {
		return "", pathErr("readlink", name, err)
	}
	if n == nil {
		return "", pathErr("readlink", name, syscall.ENOENT)
	}
	if n.Kind != kSymlink {
		return "", pathErr("readlink", name, syscall.EINVAL)
	}
	return n.Target, nil
}

func Mkdir(name string, perm fs.FileMode) error {
	f := cur
	f.call("mkdir", name, "")
	if err := f.mkdir(name); err != nil {
		return pathErr("mkdir", name, err)
	}
	return nil
}

func MkdirAll(name string, perm fs.FileMode) error {
	f := cur
	f.call("mkdir", name, "")
	acc := ""
	for _, c := range strings.Split(strings.Trim(f.abs(name), "/"), "/") {
		acc += "/" + c
		if err := f.mkdir(acc); err != nil && err != syscall.EEXIST {
			return pathErr("mkdir", name, err)
		}
	}
	return nil
}

func ReadFile(name string) ([]byte, error) {
	fl, err := Open(name)
	if err != nil {
		return nil, err
	}
	defer fl.Close()
	return io.ReadAll(fl)
}

func WriteFile(name string, data []byte, perm fs.FileMode) error {
	fl, err := OpenFile(name, O_WRONLY|O_CREATE|O_TRUNC, perm)
	if err != nil {
		return err
	}
	_, err = fl.Write(data)
	if cerr := fl.Close(); err == nil {
		err = cerr
	}
	return err
}

func Truncate(name string, size int64) error {
	fl, err := OpenFile(name, O_WRONLY, 0)
	if err != nil {
		return err
	}
	defer fl.Close()
	return fl.Truncate(size)
}

var tmpSeq int

func CreateTemp(dir, pattern string) (*File, error) {
	if dir == "" {
		dir = "/tmp"
	}
	for {
		tmpSeq++
		name := dir + "/" + strings.Replace(pattern, "*", "", 1) + "sim" + itoa(tmpSeq)
		fl, err := OpenFile(name, O_RDWR|O_CREATE|O_EXCL, 0600)
		if errors.Is(err, syscall.EEXIST) {
			continue
		}
		return fl, err
	}
}

func itoa(i int) string {
	if i == 0 {
		return "0"
	}
	s := ""
	for ; i > 0; i /= 10 {
		s = string(rune('0'+i%10)) + s
	}
	return s
}

func Chmod(name string, m fs.FileMode) error { return nil }
func Getwd() (string, error)                 { return cur.Cwd, nil }
func TempDir() string                        { return "/tmp" }

func IsNotExist(err error) bool   { return errors.Is(err, fs.ErrNotExist) }
func IsExist(err error) bool      { return errors.Is(err, fs.ErrExist) }
func IsPermission(err error) bool { return errors.Is(err, fs.ErrPermission) }
