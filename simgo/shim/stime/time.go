// Package stime replaces "time" in rewritten code: data types are the real
// ones, everything that reads the clock or arms a timer is simulated.
package stime

import (
	"time"

	"simgo/simrt"
)

type (
	Timer  = simrt.Timer
	Ticker = simrt.Ticker
)

func Now() time.Time                               { return simrt.Now() }
func Since(t time.Time) time.Duration              { return simrt.Since(t) }
func Until(t time.Time) time.Duration              { return simrt.Until(t) }
func Sleep(d time.Duration)                        { simrt.Sleep(d) }
func After(d time.Duration) *simrt.Chan[time.Time] { return simrt.After(d) }
func Tick(d time.Duration) *simrt.Chan[time.Time]  { return simrt.Tick(d) }
func NewTimer(d time.Duration) *Timer              { return simrt.NewTimer(d) }
func NewTicker(d time.Duration) *Ticker            { return simrt.NewTicker(d) }
func AfterFunc(d time.Duration, f func()) *Timer   { return simrt.AfterFunc(d, f) }
