package simrt

import "time"

// Discrete-event time. The clock only moves when the scheduler fires a timer:
// normally when no task can run (so a one-second timeout costs microseconds),
// and, in runs whose configuration enables clock jumps, also while tasks are
// runnable (a legal execution in which those tasks are merely slow).

// Now is the simulated clock. The value handed out is remembered per task
// (LastNow) so that a harness can learn which instant a library call used,
// and can be overridden (SetClockOverride) while a harness recomputes a
// reference result for that instant.
func Now() time.Time {
	n := NowNanos()
	if s := cur; s != nil {
		if s.clockOverride != 0 {
			n = s.clockOverride
		}
		if s.cur != nil {
			s.cur.lastNow = n
		}
	}
	return time.Unix(0, n).UTC()
}

// LastNow is the last value Now() returned to the running task (Unix nanoseconds).
func LastNow() int64 {
	if cur == nil || cur.cur == nil {
		return 0
	}
	return cur.cur.lastNow
}

// SetClockOverride makes Now() return the given instant (0 switches it off).
func SetClockOverride(unixNanos int64) {
	if cur != nil {
		cur.clockOverride = unixNanos
	}
}

func Since(t time.Time) time.Duration { return Now().Sub(t) }
func Until(t time.Time) time.Duration { return t.Sub(Now()) }

// timerSend delivers a value into a timer channel from scheduler context.
func (s *Sim) timerSend(c *Chan[time.Time], vc VC) {
	k := &c.core
	if len(k.buf) < k.capa {
		k.buf = append(k.buf, item{v: Now(), vc: vc})
		k.sendN++
	}
}

type Timer struct {
	C  *Chan[time.Time]
	tm *timer
	f  func()
}

func NewTimer(d time.Duration) *Timer {
	t := &Timer{C: MakeChan[time.Time](1)}
	t.arm(d)
	return t
}

func (t *Timer) arm(d time.Duration) {
	s := cur
	if s == nil {
		panic("simrt: timer outside a simulation")
	}
	if s.killing {
		return
	}
	if t.C != nil {
		s.objID(&t.C.core.id)
	}
	var vc VC
	if !s.cfg.NoRace {
		vc = s.cur.vc.clone()
		s.cur.vc.tick(s.cur.id)
	}
	if t.f != nil {
		f := t.f
		parent := s.cur.id
		t.tm = s.addTimer(int64(d), func() {
			nt := s.newTask("AfterFunc", "time.AfterFunc", parent)
			nt.vc.join(vc)
			go s.taskBody(nt, f, false)
		})
		return
	}
	c := t.C
	if d <= 0 && s.ch.Choose("timer.zero", 2) == 0 {
		// a timer that is due at once may well have fired by the time the
		// caller looks at its channel (and may not: the other answer)
		t.tm = &timer{at: s.now, dead: true}
		s.timerSend(c, vc)
		return
	}
	t.tm = s.addTimer(int64(d), func() { s.timerSend(c, vc) })
}

func (t *Timer) Stop() bool {
	s := cur
	if s == nil || s.killing || t.tm == nil {
		return false
	}
	s.yield(&pending{kind: "timer.stop"})
	active := !t.tm.dead
	t.tm.dead = true
	return active
}

func (t *Timer) Reset(d time.Duration) bool {
	s := cur
	if s == nil || s.killing {
		return false
	}
	s.yield(&pending{kind: "timer.reset"})
	active := t.tm != nil && !t.tm.dead
	if t.tm != nil {
		t.tm.dead = true
	}
	t.arm(d)
	return active
}

func After(d time.Duration) *Chan[time.Time] { return NewTimer(d).C }

func AfterFunc(d time.Duration, f func()) *Timer {
	t := &Timer{f: f}
	t.arm(d)
	return t
}

func Sleep(d time.Duration) {
	s := cur
	if s == nil || s.killing {
		return
	}
	if d <= 0 {
		s.yield(&pending{kind: "sleep0"})
		return
	}
	at := s.now + int64(d)
	s.addTimer(int64(d), func() {})
	s.yield(&pending{kind: "sleep", enabled: func() bool { return s.now >= at }})
}

type Ticker struct {
	C    *Chan[time.Time]
	d    time.Duration
	tm   *timer
	dead bool
}

func NewTicker(d time.Duration) *Ticker {
	if d <= 0 {
		panic("non-positive interval for NewTicker")
	}
	t := &Ticker{C: MakeChan[time.Time](1), d: d}
	t.arm()
	return t
}

func (t *Ticker) arm() {
	s := cur
	if s == nil || s.killing {
		return
	}
	var vc VC
	if !s.cfg.NoRace {
		vc = s.cur.vc.clone()
	}
	var fire func()
	fire = func() {
		if t.dead {
			return
		}
		s.timerSend(t.C, vc)
		t.tm = s.addTimer(int64(t.d), fire)
	}
	t.tm = s.addTimer(int64(t.d), fire)
}

func (t *Ticker) Stop() {
	t.dead = true
	if t.tm != nil {
		t.tm.dead = true
	}
}

func (t *Ticker) Reset(d time.Duration) {
	t.Stop()
	t.dead = false
	t.d = d
	t.arm()
}

func Tick(d time.Duration) *Chan[time.Time] {
	if d <= 0 {
		return nil
	}
	return NewTicker(d).C
}
