// Package simrt is the deterministic simulation runtime ("simgo").
//
// A simulated goroutine ("task") is a real goroutine that only runs while it
// holds the baton. At every simulated operation the running task publishes
// what it wants to do, the scheduler (executed by whoever holds the baton)
// computes the set of tasks that can proceed and asks the Chooser which one
// goes next. Exactly one task executes at any time, so neither the Go
// scheduler nor GOMAXPROCS has any influence on a run: a run is a pure
// function of the chooser's answers and the code.
package simrt

import (
	"fmt"
	"runtime"
	"runtime/debug"
	"sort"
	"strings"
)

// RunConfig bounds and shapes one run. All randomised knobs are drawn from the
// chooser at the start of the run (see Run).
type RunConfig struct {
	StepCap int  // scheduler steps before the run is aborted (default 200000)
	KeepLog bool // keep the event log (replay / samples); the hash is always kept
	NoRace  bool // disable the happens-before race detector
	// LatePreempt: the pre-emption plan is drawn when the world calls
	// ArmPreempt() (after a long single-task prologue) instead of at the start.
	LatePreempt bool
	// MaxPreempt bounds how many forced pre-emptions at memory-access points a
	// run may draw (default 8).
	MaxPreempt int
}

// Event is one entry of the run's history.
type Event struct {
	Seq  uint64 `json:"seq"`
	Task int    `json:"task"`
	Kind string `json:"kind"`
	Obj  int    `json:"obj,omitempty"`
	Site string `json:"site,omitempty"`
	Msg  string `json:"msg,omitempty"`
}

// Race is one pair of conflicting accesses not ordered by happens-before.
type Race struct {
	Site1, Site2 string
	Kind1, Kind2 string // "read" / "write" / "atomic-read" / "atomic-write"
	Task1, Task2 int
	Seq          uint64
}

func (r Race) String() string {
	return fmt.Sprintf("%s@%s (task %d) vs %s@%s (task %d)", r.Kind1, r.Site1, r.Task1, r.Kind2, r.Site2, r.Task2)
}

// TaskPanic is a panic that left a task's top frame (in a real program: a crash).
type TaskPanic struct {
	Task  int
	Name  string
	Value string
	Stack string
	Seq   uint64
}

// Result is what a run leaves behind for the oracles.
type Result struct {
	End        string // "ok", "deadlock", "stepcap"
	Hash       uint64
	Steps      int
	Switches   int // context switches at points where the running task could have continued
	Preempts   int // forced pre-emptions at memory access points that fired
	SimTime    int64
	Events     []Event
	Races      []Race
	Panics     []TaskPanic
	Probes     map[string]int
	Faults     map[string]int
	Blocked    []string // at deadlock: "task name @ site kind"
	Leaked     []string // tasks still alive when the main task returned
	Tasks      int
	ShapeHash  uint64 // hash of the sequence of (task name, site) context switches
	NonTrivial bool
}

type pending struct {
	kind    string
	site    string
	obj     int
	enabled func() bool // nil: always enabled
	cases   []scase     // channel operations offered (select / send / recv)
}

// Task is one simulated goroutine.
type Task struct {
	id     int
	name   string
	site   string
	wake   chan struct{}
	exited chan struct{}
	pend   *pending
	done   bool
	vc     VC
	// completion of a channel operation by the partner of a rendezvous
	completed bool
	selIdx    int
	recvVal   any
	recvOk    bool
	quiesce   int
	lastRun   int
	started   bool
	parent    int
	opSeq     uint64
	prio      int
	lastNow   int64
}

type timer struct {
	at   int64
	seq  uint64
	fn   func()
	dead bool
}

// Sim is the state of the run in progress.
type Sim struct {
	cfg      RunConfig
	ch       Chooser
	tasks    []*Task
	cur      *Task
	now      int64
	timers   []*timer
	tseq     uint64
	seq      uint64
	steps    int
	nextObj  int
	hash     uint64
	shape    uint64
	finished chan struct{}
	fin      bool
	killing  bool
	res      *Result

	pSwitch   int // out of 16
	timeJump  int // out of 64
	preemptAt []int
	accessCnt int

	shadow   map[uintptr]*shadowWord
	keep     []any
	raceSeen map[string]bool
	atomVC   map[uintptr]*VC

	clockOverride int64
	pct           bool
	pctAt         []int
	pctLow    int
	poolFresh bool
	idPtrs    []*int
	pools     []*Pool
}

var cur *Sim

// Package-level state of rewritten packages is re-initialised before every run
// (the rewriter generates one reset function per package and registers it
// here), so that a run is a pure function of its choices and not of whatever
// an earlier run of the same process left in a cache, a pool or a counter.
var resets []func()

func RegisterReset(pkg string, f func()) { resets = append(resets, f) }

// ResetPackages re-initialises the package-level state of every rewritten
// package now. Worlds call it before they compute an isolated reference
// result at the end of a run, so that the reference cannot inherit a cache, a
// memo table or a pool from the run it is compared with.
func ResetPackages() {
	for _, f := range resets {
		f()
	}
}

// Epoch of simulated time: 2023-08-16T00:35:15Z in Unix nanoseconds.
const epochNanos int64 = 1692146115 * 1e9

type goexit struct{}

// Run executes mainFn as task 0 of a fresh simulation and returns when it has
// returned (or the run dead-locked or hit its step cap). Every other task that
// is still alive is then unwound (runtime.Goexit, deferred calls run with all
// simulated operations turned into no-ops) so that nothing leaks into the next
// run of the same process.
func Run(cfg RunConfig, ch Chooser, mainFn func()) *Result {
	if cur != nil {
		panic("simrt: nested Run")
	}
	if cfg.StepCap == 0 {
		cfg.StepCap = 200000
	}
	if cfg.MaxPreempt == 0 {
		cfg.MaxPreempt = 8
	}
	s := &Sim{cfg: cfg, ch: ch, finished: make(chan struct{}), hash: 14695981039346656037, shape: 14695981039346656037}
	s.res = &Result{Probes: map[string]int{}, Faults: map[string]int{}}
	s.shadow = map[uintptr]*shadowWord{}
	s.raceSeen = map[string]bool{}
	s.atomVC = map[uintptr]*VC{}
	// per-run scheduling policy (swarm): drawn first, so it is part of the replay
	// 0..3: random walk with a per-run switch probability; 4: PCT-style
	// priority scheduling (Burckhardt et al.): tasks get random priorities, the
	// highest-priority enabled task always runs, and at d random steps the
	// running task drops below everybody else. Finds ordering bugs of small
	// depth that a uniform random walk dilutes.
	s.pSwitch = []int{1, 3, 8, 16, -1}[ch.Choose("cfg.pswitch", 5)]
	if s.pSwitch < 0 {
		s.pct = true
		d := 1 + ch.Choose("pct.depth", 3)
		for i := 0; i < d; i++ {
			s.pctAt = append(s.pctAt, 1+ch.Choose("pct.at", 400))
		}
	}
	s.timeJump = []int{0, 0, 1, 4}[ch.Choose("cfg.timejump", 4)]
	if !cfg.LatePreempt {
		s.drawPreemptPlan()
	}
	for _, f := range resets {
		f()
	}
	cur = s
	t0 := s.newTask("main", "main", -1)
	s.cur = t0
	t0.started = true
	go s.taskBody(t0, mainFn, true)
	t0.wake <- struct{}{}
	<-s.finished
	// unwind everything that is left
	s.killing = true
	for _, t := range s.tasks {
		select {
		case <-t.exited:
			continue
		default:
		}
		if !t.done && t.id != 0 {
			s.res.Leaked = append(s.res.Leaked, t.name)
		}
		t.wake <- struct{}{}
		<-t.exited
	}
	for _, p := range s.idPtrs {
		*p = 0
	}
	for _, p := range s.pools {
		p.items = nil
		p.seen = false
	}
	s.res.Hash = s.hash
	s.res.ShapeHash = s.shape
	s.res.Steps = s.steps
	s.res.SimTime = s.now
	s.res.Tasks = len(s.tasks)
	s.res.NonTrivial = s.res.Switches > 0 || s.res.Preempts > 0 || len(s.res.Faults) > 0
	cur = nil
	return s.res
}

func (s *Sim) drawPreemptPlan() {
	ch := s.ch
	np := []int{0, 1, 2, 4, 8}[ch.Choose("cfg.preempt.n", 5)]
	if np > s.cfg.MaxPreempt {
		np = s.cfg.MaxPreempt
	}
	s.preemptAt = nil
	if np > 0 {
		gap := []int{4, 16, 64, 256, 1024}[ch.Choose("cfg.preempt.gap", 5)]
		at := s.accessCnt
		for i := 0; i < np; i++ {
			at += 1 + ch.Choose("preempt.at", gap)
			s.preemptAt = append(s.preemptAt, at)
		}
	}
}

// ArmPreempt draws the pre-emption plan now, counted from the current access
// (see RunConfig.LatePreempt).
func ArmPreempt() {
	if cur != nil && !cur.killing {
		cur.drawPreemptPlan()
	}
}

func (s *Sim) newTask(name, site string, parent int) *Task {
	t := &Task{id: len(s.tasks), name: name, site: site, wake: make(chan struct{}, 1), exited: make(chan struct{}), parent: parent}
	if parent >= 0 {
		p := s.tasks[parent]
		t.vc = p.vc.clone()
		p.vc.tick(p.id)
	}
	t.vc.tick(t.id)
	if s.pct {
		t.prio = 1 + s.ch.Choose("pct.prio", 1000)
	}
	s.tasks = append(s.tasks, t)
	return t
}

func (s *Sim) taskBody(t *Task, fn func(), isMain bool) {
	defer close(t.exited)
	<-t.wake
	if s.killing {
		return
	}
	func() {
		defer func() {
			if s.killing {
				return
			}
			if r := recover(); r != nil {
				s.res.Panics = append(s.res.Panics, TaskPanic{Task: t.id, Name: t.name, Value: fmt.Sprint(r), Stack: trimStack(string(debug.Stack())), Seq: s.seq})
				s.event(t, "task-panic", 0, "", fmt.Sprint(r))
			}
		}()
		fn()
	}()
	if s.killing {
		return
	}
	t.done = true
	t.pend = nil
	s.event(t, "exit", 0, "", "")
	if isMain {
		s.finish("ok")
		return
	}
	if next := s.pickNext(); next != nil {
		s.cur = next
		next.lastRun = s.steps
		next.wake <- struct{}{}
	}
}

func trimStack(st string) string {
	lines := strings.Split(st, "\n")
	if len(lines) > 40 {
		lines = lines[:40]
	}
	return strings.Join(lines, "\n")
}

func (s *Sim) finish(reason string) {
	if s.fin {
		return
	}
	s.fin = true
	s.res.End = reason
	if reason == "deadlock" || reason == "stepcap" {
		for _, t := range s.tasks {
			if !t.done && t.pend != nil {
				s.res.Blocked = append(s.res.Blocked, fmt.Sprintf("%s @ %s %s", t.name, t.pend.site, t.pend.kind))
			}
		}
	}
	close(s.finished)
}

// yield publishes p as the running task's next operation and runs the
// scheduler. It returns when the task has been picked to perform it.
func (s *Sim) yield(p *pending) {
	t := s.cur
	t.pend = p
	t.completed = false
	next := s.pickNext()
	if next == nil {
		s.parkForever(t)
	}
	if next != t {
		s.cur = next
		next.lastRun = s.steps
		next.wake <- struct{}{}
		<-t.wake
		if s.killing {
			runtime.Goexit()
		}
	}
	t.pend = nil
	t.lastRun = s.steps
}

func (s *Sim) parkForever(t *Task) {
	<-t.wake
	runtime.Goexit()
}

func (s *Sim) isEnabled(t *Task) bool {
	if t.done || t.quiesce != 0 {
		return false
	}
	if !t.started {
		return true
	}
	if t.pend == nil {
		return true // runnable: completed by a partner or freshly created
	}
	if t.pend.enabled == nil {
		return true
	}
	return t.pend.enabled()
}

func (s *Sim) flip(kind string, num, den int) bool {
	if num <= 0 {
		return false
	}
	if num >= den {
		return true
	}
	return s.ch.Choose(kind, den) >= den-num
}

func (s *Sim) pickNext() *Task {
	for {
		if s.fin {
			return nil
		}
		s.steps++
		if s.steps > s.cfg.StepCap {
			s.finish("stepcap")
			return nil
		}
		var en []*Task
		for _, t := range s.tasks {
			if s.isEnabled(t) {
				en = append(en, t)
			}
		}
		if len(en) > 0 {
			if s.timeJump > 0 && len(s.timers) > 0 && s.flip("timejump", s.timeJump, 64) {
				s.res.Faults["clock.jump"]++
				s.fireNextTimer()
				continue
			}
			return s.policyPick(en)
		}
		if q := s.findQuiescer(1); q != nil {
			return q
		}
		if s.fireNextTimer() {
			continue
		}
		if q := s.findQuiescer(2); q != nil {
			return q
		}
		s.finish("deadlock")
		return nil
	}
}

func (s *Sim) findQuiescer(kind int) *Task {
	for _, t := range s.tasks {
		if !t.done && t.quiesce == kind {
			t.quiesce = 0
			return t
		}
	}
	return nil
}

func (s *Sim) policyPick(en []*Task) *Task {
	c := s.cur
	curEnabled := false
	for _, t := range en {
		if t == c {
			curEnabled = true
		}
	}
	var pick *Task
	switch {
	case len(en) == 1:
		pick = en[0]
	case s.steps > s.cfg.StepCap/2:
		// fairness near the cap: least recently run first
		pick = en[0]
		for _, t := range en[1:] {
			if t.lastRun < pick.lastRun {
				pick = t
			}
		}
	case s.pct:
		for _, at := range s.pctAt {
			if at == s.steps && curEnabled {
				s.pctLow--
				c.prio = s.pctLow // below everybody, and below earlier demotions
			}
		}
		pick = en[0]
		for _, t := range en[1:] {
			if t.prio > pick.prio {
				pick = t
			}
		}
	case curEnabled:
		if s.flip("switch", s.pSwitch, 16) {
			others := make([]*Task, 0, len(en)-1)
			for _, t := range en {
				if t != c {
					others = append(others, t)
				}
			}
			pick = others[s.ch.Choose("pick", len(others))]
		} else {
			pick = c
		}
	default:
		pick = en[s.ch.Choose("pick", len(en))]
	}
	if pick != c {
		if curEnabled {
			s.res.Switches++
		}
		s.mixShape(pick)
	}
	s.mix(uint64(pick.id)<<8 | 1)
	return pick
}

func (s *Sim) mix(v uint64) {
	for i := 0; i < 8; i++ {
		s.hash ^= v & 0xff
		s.hash *= 1099511628211
		v >>= 8
	}
}

func (s *Sim) mixStr(str string) {
	for i := 0; i < len(str); i++ {
		s.hash ^= uint64(str[i])
		s.hash *= 1099511628211
	}
	s.hash ^= 0xff
	s.hash *= 1099511628211
}

func (s *Sim) mixShape(t *Task) {
	str := t.name
	if t.pend != nil {
		str += "@" + t.pend.site
	}
	for i := 0; i < len(str); i++ {
		s.shape ^= uint64(str[i])
		s.shape *= 1099511628211
	}
	s.shape ^= 0xfe
	s.shape *= 1099511628211
}

func (s *Sim) event(t *Task, kind string, obj int, site, msg string) {
	s.seq++
	tid := -1
	if t != nil {
		tid = t.id
	}
	s.mix(uint64(tid+1)<<32 | uint64(obj))
	s.mixStr(kind)
	if msg != "" {
		s.mixStr(msg)
	}
	if s.cfg.KeepLog {
		s.res.Events = append(s.res.Events, Event{Seq: s.seq, Task: tid, Kind: kind, Obj: obj, Site: site, Msg: msg})
	}
}

func (s *Sim) objID(p *int) int {
	if *p == 0 {
		s.nextObj++
		*p = s.nextObj
		// package-level objects of rewritten code outlive the run: their
		// identity must not leak into the next run of this process
		s.idPtrs = append(s.idPtrs, p)
	}
	return *p
}

// ---- timers ----

func (s *Sim) addTimer(d int64, fn func()) *timer {
	if d < 0 {
		d = 0
	}
	s.tseq++
	tm := &timer{at: s.now + d, seq: s.tseq, fn: fn}
	s.timers = append(s.timers, tm)
	sort.SliceStable(s.timers, func(i, j int) bool {
		if s.timers[i].at != s.timers[j].at {
			return s.timers[i].at < s.timers[j].at
		}
		return s.timers[i].seq < s.timers[j].seq
	})
	return tm
}

func (s *Sim) fireNextTimer() bool {
	for len(s.timers) > 0 {
		tm := s.timers[0]
		s.timers = s.timers[1:]
		if tm.dead {
			continue
		}
		if tm.at > s.now {
			s.now = tm.at
		}
		tm.dead = true
		s.event(nil, "timer", int(tm.seq), "", "")
		tm.fn()
		return true
	}
	return false
}

// ---- public API used by worlds and by rewritten code ----

// Go starts a simulated goroutine.
func Go(site string, fn func()) { GoNamed(site, site, fn) }

// GoNamed starts a simulated goroutine with a role name (worlds).
func GoNamed(name, site string, fn func()) {
	s := cur
	if s == nil {
		panic("simrt.Go outside a simulation")
	}
	if s.killing {
		return
	}
	t := s.newTask(name, site, s.cur.id)
	s.event(s.cur, "go", t.id, site, name)
	go s.taskBody(t, fn, false)
	t.started = true
	// the new task is runnable at once; the parent reaches a schedule point
	s.yield(&pending{kind: "go", site: site})
}

// Yield is a plain schedule point.
func Yield(site string) {
	s := cur
	if s == nil || s.killing {
		return
	}
	s.yield(&pending{kind: "yield", site: site})
}

// Quiesce parks the caller until no other task can make progress at the
// current simulated instant (timers are not advanced).
func Quiesce() { quiesce(1) }

// Settle parks the caller until no other task can make progress and every
// timer has fired.
func Settle() { quiesce(2) }

func quiesce(kind int) {
	s := cur
	if s == nil || s.killing {
		return
	}
	t := s.cur
	t.quiesce = kind
	s.yield(&pending{kind: "quiesce", site: "harness", enabled: func() bool { return false }})
	s.event(t, "quiesced", kind, "", "")
}

// Choose draws a world-level decision from the run's chooser.
func Choose(kind string, n int) int {
	s := cur
	if s == nil {
		panic("simrt.Choose outside a simulation")
	}
	return s.ch.Choose(kind, n)
}

// Note appends a world-level event (API call, observation) to the history and
// returns its sequence number.
func Note(kind, msg string) uint64 {
	s := cur
	if s == nil || s.killing {
		return 0
	}
	s.event(s.cur, kind, 0, "", msg)
	return s.seq
}

// Seq is the current global event sequence number.
func Seq() uint64 {
	if cur == nil {
		return 0
	}
	return cur.seq
}

// LastOpSeq is the event sequence number at which the running task's most
// recent channel operation completed (for a rendezvous: the instant both sides
// completed, however much later this task was resumed).
func LastOpSeq() uint64 {
	if cur == nil || cur.cur == nil {
		return 0
	}
	return cur.cur.opSeq
}

// Stamp increments and returns the global event sequence number without
// logging text (cheap invoke/return stamps).
func Stamp() uint64 {
	s := cur
	if s == nil {
		return 0
	}
	s.seq++
	return s.seq
}

func Probe(name string) {
	if cur != nil && !cur.killing {
		cur.res.Probes[name]++
	}
}

func Fault(name string) {
	if cur != nil && !cur.killing {
		cur.res.Faults[name]++
		cur.event(cur.cur, "fault", 0, "", name)
	}
}

// NowNanos is the simulated clock (Unix nanoseconds).
func NowNanos() int64 {
	if cur == nil {
		return epochNanos
	}
	return epochNanos + cur.now
}

// RaiseStepCap lets a world that has drawn a long scenario extend the run's
// step budget (never below the configured one).
func RaiseStepCap(n int) {
	if cur != nil && n > cur.cfg.StepCap {
		cur.cfg.StepCap = n
	}
}

// Elapsed is simulated time since the start of the run.
func Elapsed() int64 {
	if cur == nil {
		return 0
	}
	return cur.now
}

// TaskID of the running task.
func TaskID() int {
	if cur == nil || cur.cur == nil {
		return -1
	}
	return cur.cur.id
}

// Killing reports whether the run is being unwound.
func Killing() bool { return cur != nil && cur.killing }

// Active reports whether a simulation is running.
func Active() bool { return cur != nil && !cur.killing }

type TaskInfo struct {
	ID      int
	Name    string
	Site    string
	Done    bool
	Blocked string
	// shape of the operation the task is parked on: how many send and receive
	// cases it offers (0/0 when it is not a channel operation)
	Sends, Recvs int
	Enabled      bool
}

// Tasks lists every task created so far.
func Tasks() []TaskInfo {
	s := cur
	if s == nil {
		return nil
	}
	out := make([]TaskInfo, 0, len(s.tasks))
	for _, t := range s.tasks {
		ti := TaskInfo{ID: t.id, Name: t.name, Site: t.site, Done: t.done}
		if t.pend != nil {
			ti.Blocked = t.pend.kind + "@" + t.pend.site
			for _, c := range t.pend.cases {
				if c.dir == dirSend {
					ti.Sends++
				} else {
					ti.Recvs++
				}
			}
		}
		ti.Enabled = s.isEnabled(t)
		out = append(out, ti)
	}
	return out
}

// Keep is referenced by rewritten files so that the simrt import is always used.
var Keep = 0
