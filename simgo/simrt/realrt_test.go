package simrt

import (
	"context"
	"fmt"
	"sync"
	"sync/atomic"
	"testing"
	"time"
)

// The second half of the conformance suite: the same micro-programs written
// against the REAL runtime (chan, select, sync, time, context). Every outcome
// the real runtime produces must lie inside the allowed set that the simulated
// twin is held to - this guards the allowed sets themselves (a wrong
// expectation would make the simulator either too strict, a false-alarm
// generator, or too loose). The real runtime need not reach every allowed
// outcome; the simulator must (TestConformance).

// realScale stretches the sleeps by which the timing-dependent programs let
// another goroutine reach its blocking point. On a loaded machine a millisecond
// may not be enough; an outcome outside the allowed set only counts when it
// persists with sleeps 10 and 100 times as long.
var realScale time.Duration = 1

var realPrograms = map[string]func() string{
	"unbuffered rendezvous": func() string {
		c := make(chan int)
		go func() { c <- 7 }()
		return fmt.Sprint(<-c)
	},
	"buffered fifo": func() string {
		c := make(chan int, 3)
		c <- 1
		c <- 2
		c <- 3
		return fmt.Sprint(<-c, <-c, <-c)
	},
	"recv closed drained": func() string {
		c := make(chan int, 2)
		c <- 5
		close(c)
		a, ok1 := <-c
		b, ok2 := <-c
		return fmt.Sprint(a, ok1, b, ok2)
	},
	"close wakes receivers": func() string {
		c := make(chan int)
		r := make(chan bool, 2)
		for i := 0; i < 2; i++ {
			go func() { _, ok := <-c; r <- ok }()
		}
		time.Sleep(realScale * time.Millisecond)
		close(c)
		return fmt.Sprint(<-r, <-r)
	},
	"send on closed panics": func() (out string) {
		defer func() { out = fmt.Sprint("PANIC:", recover()) }()
		c := make(chan int, 1)
		close(c)
		c <- 1
		return "no panic"
	},
	"blocked sender panics on close": func() string {
		c := make(chan int)
		out := make(chan string, 1)
		go func() {
			defer func() { out <- fmt.Sprint("panic:", recover()) }()
			c <- 1
		}()
		time.Sleep(realScale * time.Millisecond)
		close(c)
		return <-out
	},
	"close twice panics": func() (out string) {
		defer func() { out = fmt.Sprint("PANIC:", recover()) }()
		c := make(chan int)
		close(c)
		close(c)
		return ""
	},
	"close nil panics": func() (out string) {
		defer func() { out = fmt.Sprint("PANIC:", recover()) }()
		var c chan int
		close(c)
		return ""
	},
	"nil channel never ready": func() string {
		var c chan int
		select {
		case <-c:
			return "ready"
		case c <- 1:
			return "ready"
		default:
			return "default"
		}
	},
	"select picks any ready case": func() string {
		a, b, c := make(chan int, 1), make(chan int, 1), make(chan int, 1)
		a <- 1
		b <- 1
		select {
		case <-a:
			return "0"
		case <-b:
			return "1"
		case c <- 1:
			return "2"
		}
	},
	"select default only when none ready": func() string {
		a := make(chan int, 1)
		x, y := 0, 0
		select {
		case <-a:
		default:
			x = -1
		}
		a <- 1
		select {
		case <-a:
		default:
			y = -1
		}
		return fmt.Sprint(x, y)
	},
	"parked select leaves no stale offer": func() string {
		a, b := make(chan int), make(chan int)
		res := make(chan string, 1)
		go func() {
			select {
			case v := <-a:
				res <- fmt.Sprint("a=", v)
			case v := <-b:
				res <- fmt.Sprint("b=", v)
			}
		}()
		go func() { a <- 1 }()
		go func() { b <- 2 }()
		first := <-res
		if first == "a=1" {
			if <-b != 2 {
				return "b lost"
			}
			return "a=1 b-intact"
		}
		if <-a != 1 {
			return "a lost"
		}
		return "b=2 a-intact"
	},
	"select with default meets parked sender": func() string {
		c := make(chan int)
		go func() { c <- 1 }()
		select {
		case <-c:
			return "got"
		default:
		}
		<-c
		return "default"
	},
	"range over channel": func() string {
		c := make(chan int)
		go func() {
			for i := 1; i <= 3; i++ {
				c <- i
			}
			close(c)
		}()
		sum := 0
		for v := range c {
			sum += v
		}
		return fmt.Sprint(sum)
	},
	"mutex excludes": func() string {
		var mu sync.Mutex
		var wg sync.WaitGroup
		n := 0
		wg.Add(4)
		for i := 0; i < 4; i++ {
			go func() {
				defer wg.Done()
				for j := 0; j < 25; j++ {
					mu.Lock()
					n++
					mu.Unlock()
				}
			}()
		}
		wg.Wait()
		return fmt.Sprint(n)
	},
	"rwmutex pending writer blocks new readers": func() string {
		var mu sync.RWMutex
		mu.RLock()
		var got atomic.Bool
		go func() { mu.Lock(); mu.Unlock() }()
		time.Sleep(realScale * 2 * time.Millisecond)
		go func() { mu.RLock(); got.Store(true); mu.RUnlock() }()
		time.Sleep(realScale * 2 * time.Millisecond)
		if got.Load() {
			return "reader overtook writer"
		}
		mu.RUnlock()
		time.Sleep(realScale * 2 * time.Millisecond)
		if !got.Load() {
			return "reader never ran"
		}
		return "blocked"
	},
	"waitgroup negative panics": func() (out string) {
		defer func() { out = fmt.Sprint("PANIC:", recover()) }()
		var wg sync.WaitGroup
		wg.Done()
		return ""
	},
	"once runs once": func() string {
		var o sync.Once
		var wg sync.WaitGroup
		var n atomic.Int32
		wg.Add(3)
		for i := 0; i < 3; i++ {
			go func() { o.Do(func() { n.Add(1) }); wg.Done() }()
		}
		wg.Wait()
		return fmt.Sprint(n.Load())
	},
	"atomic decrement wraps": func() string {
		var a atomic.Uint32
		a.Add(1)
		a.Add(^uint32(0))
		return fmt.Sprint(a.Load())
	},
	"atomic.Value inconsistent type panics": func() (out string) {
		defer func() { out = fmt.Sprint("PANIC:", recover()) }()
		var v atomic.Value
		v.Store("s")
		v.Store(1)
		return ""
	},
	"atomic.Value nil panics": func() (out string) {
		defer func() { out = fmt.Sprint("PANIC:", recover()) }()
		var v atomic.Value
		v.Store(nil)
		return ""
	},
	"pool new or reuse": func() string {
		p := sync.Pool{New: func() any { return "new" }}
		p.Put("reused")
		return p.Get().(string)
	},
	"pool without New": func() string {
		var p sync.Pool
		return fmt.Sprint(p.Get())
	},
	"timer stop": func() string {
		tm := time.NewTimer(50 * time.Millisecond)
		a := tm.Stop()
		time.Sleep(60 * time.Millisecond)
		got := false
		select {
		case <-tm.C:
			got = true
		default:
		}
		return fmt.Sprint(a, got)
	},
	"context cancel propagates to children": func() string {
		root, cancelRoot := context.WithCancel(context.Background())
		defer cancelRoot()
		p, cancel := context.WithCancel(root)
		c, cc := context.WithCancel(context.WithValue(p, "k", 1))
		defer cc()
		cancel()
		<-c.Done()
		return fmt.Sprint(p.Err(), c.Err(), root.Err())
	},
	"context child of cancelled parent": func() string {
		p, cancel := context.WithCancel(context.Background())
		cancel()
		c, cc := context.WithCancel(p)
		defer cc()
		select {
		case <-c.Done():
		default:
			return "not done"
		}
		return fmt.Sprint(c.Err())
	},
	"context expired deadline": func() string {
		c, cc := context.WithDeadline(context.Background(), time.Now().Add(-time.Second))
		defer cc()
		return fmt.Sprint(c.Err())
	},
}

func TestRealRuntimeWithinAllowedSets(t *testing.T) {
	byName := map[string]microProg{}
	for _, m := range micros {
		byName[m.name] = m
	}
	for name, prog := range realPrograms {
		m, ok := byName[name]
		if !ok {
			t.Errorf("no simulated twin for %q", name)
			continue
		}
		allowed := map[string]bool{}
		for _, a := range m.allowed {
			// the simulated twins report an escaped panic as "PANIC:<value>";
			// runtime errors print with a "runtime error: "-free text there
			allowed[a] = true
		}
		reps := 200
		if name == "timer stop" {
			reps = 5
		}
		for i := 0; i < reps; i++ {
			out := prog()
			for _, sc := range []time.Duration{10, 100} {
				if allowed[out] {
					break
				}
				realScale = sc
				out = prog()
				realScale = 1
			}
			if !allowed[out] {
				t.Errorf("%s: the real runtime produced %q, which the allowed set %v does not contain", name, out, m.allowed)
				break
			}
		}
	}
}
