package simrt

import (
	"reflect"
	"unsafe"
)

// Simulated sync/atomic. Every operation is a schedule point; an atomic read
// that observes an atomic write is synchronised after it (Go memory model).
// All atomics on one variable are treated as acquire+release (what the Go race
// detector does), loads as acquire only.

type atomBase struct {
	id int
	vc VC
}

func (a *atomBase) enter(kind string) *Sim {
	s := cur
	if s == nil || s.killing {
		return nil
	}
	s.objID(&a.id)
	s.yield(&pending{kind: kind, obj: a.id})
	s.acquire(&a.vc)
	return s
}

func (a *atomBase) wrote(s *Sim) {
	if s != nil {
		s.release(&a.vc)
	}
}

type integer interface {
	~int32 | ~int64 | ~uint32 | ~uint64 | ~uintptr
}

type atomInt[T integer] struct {
	atomBase
	v T
}

func (a *atomInt[T]) Load() T { a.enter("atomic.load"); return a.v }
func (a *atomInt[T]) Store(v T) {
	s := a.enter("atomic.store")
	a.v = v
	a.wrote(s)
}
func (a *atomInt[T]) Swap(v T) T {
	s := a.enter("atomic.swap")
	old := a.v
	a.v = v
	a.wrote(s)
	return old
}
func (a *atomInt[T]) CompareAndSwap(old, new T) bool {
	s := a.enter("atomic.cas")
	if a.v != old {
		return false
	}
	a.v = new
	a.wrote(s)
	return true
}
func (a *atomInt[T]) Add(d T) T {
	s := a.enter("atomic.add")
	a.v += d
	a.wrote(s)
	return a.v
}
func (a *atomInt[T]) And(m T) T {
	s := a.enter("atomic.and")
	old := a.v
	a.v &= m
	a.wrote(s)
	return old
}
func (a *atomInt[T]) Or(m T) T {
	s := a.enter("atomic.or")
	old := a.v
	a.v |= m
	a.wrote(s)
	return old
}

type Int32 struct{ atomInt[int32] }
type Int64 struct{ atomInt[int64] }
type Uint32 struct{ atomInt[uint32] }
type Uint64 struct{ atomInt[uint64] }
type Uintptr struct{ atomInt[uintptr] }

type Bool struct {
	atomBase
	v bool
}

func (a *Bool) Load() bool { a.enter("atomic.load"); return a.v }
func (a *Bool) Store(v bool) {
	s := a.enter("atomic.store")
	a.v = v
	a.wrote(s)
}
func (a *Bool) Swap(v bool) bool {
	s := a.enter("atomic.swap")
	old := a.v
	a.v = v
	a.wrote(s)
	return old
}
func (a *Bool) CompareAndSwap(old, new bool) bool {
	s := a.enter("atomic.cas")
	if a.v != old {
		return false
	}
	a.v = new
	a.wrote(s)
	return true
}

type Pointer[T any] struct {
	atomBase
	v *T
}

func (a *Pointer[T]) Load() *T { a.enter("atomic.load"); return a.v }
func (a *Pointer[T]) Store(v *T) {
	s := a.enter("atomic.store")
	a.v = v
	a.wrote(s)
}
func (a *Pointer[T]) Swap(v *T) *T {
	s := a.enter("atomic.swap")
	old := a.v
	a.v = v
	a.wrote(s)
	return old
}
func (a *Pointer[T]) CompareAndSwap(old, new *T) bool {
	s := a.enter("atomic.cas")
	if a.v != old {
		return false
	}
	a.v = new
	a.wrote(s)
	return true
}

// Value mirrors atomic.Value including its panics on nil and on values of
// inconsistent dynamic type.
type Value struct {
	atomBase
	v any
}

func (a *Value) Load() any { a.enter("atomic.load"); return a.v }

func (a *Value) check(v any, what string) {
	if v == nil {
		panic("sync/atomic: " + what + " of nil value into Value")
	}
	if a.v != nil && reflect.TypeOf(a.v) != reflect.TypeOf(v) {
		panic("sync/atomic: " + what + " of inconsistently typed value into Value")
	}
}

func (a *Value) Store(v any) {
	s := a.enter("atomic.store")
	a.check(v, "store")
	a.v = v
	a.wrote(s)
}

func (a *Value) Swap(v any) any {
	s := a.enter("atomic.swap")
	a.check(v, "swap")
	old := a.v
	a.v = v
	a.wrote(s)
	return old
}

func (a *Value) CompareAndSwap(old, new any) bool {
	s := a.enter("atomic.cas")
	a.check(new, "compare and swap")
	if old != nil && reflect.TypeOf(old) != reflect.TypeOf(new) {
		panic("sync/atomic: compare and swap of inconsistently typed values")
	}
	if a.v != old {
		return false
	}
	a.v = new
	a.wrote(s)
	return true
}

// ---- function-style atomics on plain words ----

func atomEnter(p unsafe.Pointer, size uintptr, write bool, kind string) *Sim {
	s := cur
	if s == nil || s.killing {
		return nil
	}
	s.yield(&pending{kind: kind})
	vc := s.atomVC[uintptr(p)]
	if vc == nil {
		vc = &VC{}
		s.atomVC[uintptr(p)] = vc
		s.keep = append(s.keep, p)
	}
	s.acquire(vc)
	s.atomicAccess(p, size, write, "atomic")
	if write {
		s.release(vc)
	}
	return s
}

func AtomLoad[T integer](p *T) T {
	atomEnter(unsafe.Pointer(p), unsafe.Sizeof(*p), false, "atomic.load")
	return *p
}

func AtomStore[T integer](p *T, v T) {
	atomEnter(unsafe.Pointer(p), unsafe.Sizeof(*p), true, "atomic.store")
	*p = v
}

func AtomAdd[T integer](p *T, d T) T {
	atomEnter(unsafe.Pointer(p), unsafe.Sizeof(*p), true, "atomic.add")
	*p += d
	return *p
}

func AtomSwap[T integer](p *T, v T) T {
	atomEnter(unsafe.Pointer(p), unsafe.Sizeof(*p), true, "atomic.swap")
	old := *p
	*p = v
	return old
}

func AtomCAS[T integer](p *T, old, new T) bool {
	atomEnter(unsafe.Pointer(p), unsafe.Sizeof(*p), true, "atomic.cas")
	if *p != old {
		return false
	}
	*p = new
	return true
}

func AtomAnd[T integer](p *T, m T) T {
	atomEnter(unsafe.Pointer(p), unsafe.Sizeof(*p), true, "atomic.and")
	old := *p
	*p &= m
	return old
}

func AtomOr[T integer](p *T, m T) T {
	atomEnter(unsafe.Pointer(p), unsafe.Sizeof(*p), true, "atomic.or")
	old := *p
	*p |= m
	return old
}

func AtomLoadPointer(p *unsafe.Pointer) unsafe.Pointer {
	atomEnter(unsafe.Pointer(p), 8, false, "atomic.load")
	return *p
}

func AtomStorePointer(p *unsafe.Pointer, v unsafe.Pointer) {
	atomEnter(unsafe.Pointer(p), 8, true, "atomic.store")
	*p = v
}

func AtomSwapPointer(p *unsafe.Pointer, v unsafe.Pointer) unsafe.Pointer {
	atomEnter(unsafe.Pointer(p), 8, true, "atomic.swap")
	old := *p
	*p = v
	return old
}

func AtomCASPointer(p *unsafe.Pointer, old, new unsafe.Pointer) bool {
	atomEnter(unsafe.Pointer(p), 8, true, "atomic.cas")
	if *p != old {
		return false
	}
	*p = new
	return true
}
