package simrt

import (
	"context"
	"time"
)

// Context is the simulated context.Context: identical except that Done()
// returns a simulated channel, so that cancellation is a scheduler event.
type Context interface {
	Deadline() (deadline time.Time, ok bool)
	Done() *Chan[struct{}]
	Err() error
	Value(key any) any
}

type CancelFunc func()
type CancelCauseFunc func(cause error)

var (
	Canceled         = context.Canceled
	DeadlineExceeded = context.DeadlineExceeded
)

type emptyCtx struct{ name string }

func (emptyCtx) Deadline() (time.Time, bool) { return time.Time{}, false }
func (emptyCtx) Done() *Chan[struct{}]       { return nil }
func (emptyCtx) Err() error                  { return nil }
func (emptyCtx) Value(any) any               { return nil }
func (e emptyCtx) String() string            { return e.name }

var bg, todo = emptyCtx{"context.Background"}, emptyCtx{"context.TODO"}

func Background() Context { return bg }
func TODO() Context       { return todo }

type cancelCtx struct {
	parent   Context
	done     *Chan[struct{}]
	err      error
	cause    error
	children []*cancelCtx
	deadline time.Time
	hasDL    bool
	tm       *timer
	noProp   bool
	foreign  bool // parent is a foreign Context implementation: watched by a task
}

func (c *cancelCtx) Deadline() (time.Time, bool) {
	if c.hasDL {
		return c.deadline, true
	}
	return c.parent.Deadline()
}

func (c *cancelCtx) Done() *Chan[struct{}] { return c.done }

func (c *cancelCtx) Err() error {
	s := cur
	if s != nil && !s.killing {
		s.yield(&pending{kind: "ctx.err"})
		if c.err != nil {
			s.acquire(&c.done.core.closeVC)
		}
	}
	return c.err
}

func (c *cancelCtx) Value(key any) any {
	if key == &cancelCtxKey {
		return c
	}
	return c.parent.Value(key)
}

var cancelCtxKey int

type valueCtx struct {
	Context
	key, val any
}

func (v *valueCtx) Value(key any) any {
	if v.key == key {
		return v.val
	}
	return v.Context.Value(key)
}

func WithValue(parent Context, key, val any) Context {
	if parent == nil {
		panic("cannot create context from nil parent")
	}
	return &valueCtx{parent, key, val}
}

type withoutCancel struct{ c Context }

func (withoutCancel) Deadline() (time.Time, bool) { return time.Time{}, false }
func (withoutCancel) Done() *Chan[struct{}]       { return nil }
func (withoutCancel) Err() error                  { return nil }
func (w withoutCancel) Value(key any) any {
	if key == &cancelCtxKey {
		return nil
	}
	return w.c.Value(key)
}

func WithoutCancel(parent Context) Context { return withoutCancel{parent} }

func newCancelCtx(parent Context) *cancelCtx {
	if parent == nil {
		panic("cannot create context from nil parent")
	}
	c := &cancelCtx{parent: parent, done: MakeChan[struct{}](0)}
	if s := cur; s != nil {
		s.objID(&c.done.core.id)
	}
	if p, ok := parent.Value(&cancelCtxKey).(*cancelCtx); ok && p != nil {
		if p.err != nil {
			c.cancel(p.err, p.cause, true)
		} else {
			p.children = append(p.children, c)
		}
	} else if pd := parent.Done(); pd != nil {
		// a parent that is not one of this package's own contexts (a caller's
		// own Context implementation): as in package context, a separate task
		// watches it, so the child is cancelled some time AFTER the parent
		c.foreign = true
		if s := cur; s != nil {
			Go("context.propagateCancel", func() {
				r := RecvOf(pd)
				if Select("", false, r, RecvOf(c.done)) == 0 {
					c.cancel(parent.Err(), nil, false)
				}
			})
		}
	}
	return c
}

// cancel marks c and its descendants cancelled. inline means: no schedule
// point (called from scheduler context or as part of another cancel).
func (c *cancelCtx) cancel(err, cause error, inline bool) {
	s := cur
	if s != nil && s.killing {
		return
	}
	if s != nil && !inline {
		s.yield(&pending{kind: "ctx.cancel", obj: c.done.core.id})
	}
	if c.err != nil {
		return
	}
	c.err = err
	if cause == nil {
		cause = err
	}
	c.cause = cause
	if c.tm != nil {
		c.tm.dead = true
	}
	if s != nil {
		s.closeCore(&c.done.core, "ctx.cancel")
	} else {
		c.done.core.closed = true
	}
	// As in package context, a cancellation reaches the children one after the
	// other AFTER the parent's Done channel was closed: when a task cancels,
	// each child is a schedule point of its own, so that another task can see
	// the parent done while a child (a context some component derived for
	// itself) is still live. Cancellations fired by a timer stay one step.
	children := c.children
	c.children = nil
	for _, ch := range children {
		if s != nil && !inline && !s.killing {
			s.yield(&pending{kind: "ctx.cancel.child", obj: ch.done.core.id})
		}
		ch.cancel(err, cause, true)
	}
}

func WithCancel(parent Context) (Context, CancelFunc) {
	c := newCancelCtx(parent)
	return c, func() { c.cancel(Canceled, nil, false) }
}

func WithCancelCause(parent Context) (Context, CancelCauseFunc) {
	c := newCancelCtx(parent)
	return c, func(cause error) { c.cancel(Canceled, cause, false) }
}

func WithDeadline(parent Context, d time.Time) (Context, CancelFunc) {
	return WithDeadlineCause(parent, d, nil)
}

func WithDeadlineCause(parent Context, d time.Time, cause error) (Context, CancelFunc) {
	c := newCancelCtx(parent)
	if pd, ok := parent.Deadline(); ok && pd.Before(d) {
		return c, func() { c.cancel(Canceled, nil, false) }
	}
	c.deadline, c.hasDL = d, true
	dur := Until(d)
	if dur <= 0 {
		c.cancel(DeadlineExceeded, cause, true)
		return c, func() {}
	}
	if s := cur; s != nil && c.err == nil {
		c.tm = s.addTimer(int64(dur), func() { c.cancel(DeadlineExceeded, cause, true) })
	}
	return c, func() { c.cancel(Canceled, nil, false) }
}

func WithTimeout(parent Context, d time.Duration) (Context, CancelFunc) {
	return WithDeadline(parent, Now().Add(d))
}

func WithTimeoutCause(parent Context, d time.Duration, cause error) (Context, CancelFunc) {
	return WithDeadlineCause(parent, Now().Add(d), cause)
}

func Cause(c Context) error {
	if cc, ok := c.Value(&cancelCtxKey).(*cancelCtx); ok && cc != nil {
		return cc.cause
	}
	return c.Err()
}

// CtxAfterFunc is context.AfterFunc.
func CtxAfterFunc(ctx Context, f func()) (stop func() bool) {
	stopped := false
	started := false
	Go("context.AfterFunc", func() {
		ctx.Done().Recv()
		if stopped {
			return
		}
		started = true
		f()
	})
	return func() bool {
		if started || stopped {
			return false
		}
		stopped = true
		return true
	}
}
