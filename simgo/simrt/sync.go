package simrt

import (
	"fmt"
	"runtime"
	"strings"
)

// Simulated sync primitives. Zero values are ready to use, as in package sync.
// Outside a simulation (package initialisation of rewritten code) they behave
// as plain sequential objects.

type Mutex struct {
	id     int
	locked bool
	vc     VC
}

func (m *Mutex) Lock() {
	s := cur
	if s == nil {
		m.locked = true
		return
	}
	if s.killing {
		return
	}
	s.objID(&m.id)
	site := ""
	if m.locked {
		site = blockSite() // about to block: remember where (shown if the run deadlocks)
	}
	s.yield(&pending{kind: "lock", site: site, obj: m.id, enabled: func() bool { return !m.locked }})
	m.locked = true
	s.acquire(&m.vc)
	s.event(s.cur, "lock", m.id, "", "")
}

func (m *Mutex) TryLock() bool {
	s := cur
	if s == nil {
		if m.locked {
			return false
		}
		m.locked = true
		return true
	}
	if s.killing {
		return true
	}
	s.objID(&m.id)
	s.yield(&pending{kind: "trylock", obj: m.id})
	if m.locked {
		return false
	}
	m.locked = true
	s.acquire(&m.vc)
	s.event(s.cur, "lock", m.id, "", "")
	return true
}

func (m *Mutex) Unlock() {
	s := cur
	if s == nil {
		m.locked = false
		return
	}
	if s.killing {
		return
	}
	s.objID(&m.id)
	s.yield(&pending{kind: "unlock", obj: m.id})
	if !m.locked {
		panic(fatalError("sync: unlock of unlocked mutex"))
	}
	m.locked = false
	s.releaseStore(&m.vc)
	s.event(s.cur, "unlock", m.id, "", "")
}

type fatalError string

func (e fatalError) Error() string { return "fatal error: " + string(e) }

type Locker interface {
	Lock()
	Unlock()
}

// RWMutex: a blocked Lock call excludes new readers (as documented by sync).
type RWMutex struct {
	id       int
	writer   bool
	readers  int
	wwaiting int
	vc       VC // released by the writer
	rvc      VC // released by readers
}

func (m *RWMutex) Lock() {
	s := cur
	if s == nil {
		m.writer = true
		return
	}
	if s.killing {
		return
	}
	s.objID(&m.id)
	m.wwaiting++
	wsite := ""
	if m.writer || m.readers != 0 {
		wsite = blockSite()
	}
	s.yield(&pending{kind: "wlock", site: wsite, obj: m.id, enabled: func() bool { return !m.writer && m.readers == 0 }})
	m.wwaiting--
	m.writer = true
	s.acquire(&m.vc)
	s.acquire(&m.rvc)
	s.event(s.cur, "wlock", m.id, "", "")
}

func (m *RWMutex) Unlock() {
	s := cur
	if s == nil {
		m.writer = false
		return
	}
	if s.killing {
		return
	}
	s.objID(&m.id)
	s.yield(&pending{kind: "wunlock", obj: m.id})
	if !m.writer {
		panic(fatalError("sync: Unlock of unlocked RWMutex"))
	}
	m.writer = false
	s.releaseStore(&m.vc)
	s.event(s.cur, "wunlock", m.id, "", "")
}

func (m *RWMutex) RLock() {
	s := cur
	if s == nil {
		m.readers++
		return
	}
	if s.killing {
		return
	}
	s.objID(&m.id)
	rsite := ""
	if m.writer || m.wwaiting != 0 {
		rsite = blockSite()
	}
	s.yield(&pending{kind: "rlock", site: rsite, obj: m.id, enabled: func() bool { return !m.writer && m.wwaiting == 0 }})
	m.readers++
	s.acquire(&m.vc)
	s.event(s.cur, "rlock", m.id, "", "")
}

func (m *RWMutex) RUnlock() {
	s := cur
	if s == nil {
		m.readers--
		return
	}
	if s.killing {
		return
	}
	s.objID(&m.id)
	s.yield(&pending{kind: "runlock", obj: m.id})
	if m.readers <= 0 {
		panic(fatalError("sync: RUnlock of unlocked RWMutex"))
	}
	m.readers--
	s.release(&m.rvc)
	s.event(s.cur, "runlock", m.id, "", "")
}

func (m *RWMutex) TryLock() bool {
	s := cur
	if s != nil && s.killing {
		return true
	}
	if s != nil {
		s.objID(&m.id)
		s.yield(&pending{kind: "trywlock", obj: m.id})
	}
	if m.writer || m.readers > 0 {
		return false
	}
	m.writer = true
	if s != nil {
		s.acquire(&m.vc)
		s.acquire(&m.rvc)
	}
	return true
}

func (m *RWMutex) TryRLock() bool {
	s := cur
	if s != nil && s.killing {
		return true
	}
	if s != nil {
		s.objID(&m.id)
		s.yield(&pending{kind: "tryrlock", obj: m.id})
	}
	if m.writer || m.wwaiting > 0 {
		return false
	}
	m.readers++
	if s != nil {
		s.acquire(&m.vc)
	}
	return true
}

type rlocker RWMutex

func (r *rlocker) Lock()   { (*RWMutex)(r).RLock() }
func (r *rlocker) Unlock() { (*RWMutex)(r).RUnlock() }

func (m *RWMutex) RLocker() Locker { return (*rlocker)(m) }

type WaitGroup struct {
	id int
	n  int
	vc VC
}

func (w *WaitGroup) Add(d int) {
	s := cur
	if s == nil {
		w.n += d
		return
	}
	if s.killing {
		return
	}
	s.objID(&w.id)
	s.yield(&pending{kind: "wg.add", obj: w.id})
	w.n += d
	if w.n < 0 {
		panic("sync: negative WaitGroup counter")
	}
	s.release(&w.vc)
	s.event(s.cur, "wg.add", w.id, "", "")
}

func (w *WaitGroup) Done() { w.Add(-1) }

func (w *WaitGroup) Wait() {
	s := cur
	if s == nil {
		if w.n != 0 {
			panic("simrt: WaitGroup.Wait would block outside a simulation")
		}
		return
	}
	if s.killing {
		return
	}
	s.objID(&w.id)
	s.yield(&pending{kind: "wg.wait", obj: w.id, enabled: func() bool { return w.n == 0 }})
	s.acquire(&w.vc)
	s.event(s.cur, "wg.wait", w.id, "", "")
}

// Go is Go 1.25's WaitGroup.Go.
func (w *WaitGroup) Go(f func()) {
	w.Add(1)
	Go("WaitGroup.Go", func() {
		defer w.Done()
		f()
	})
}

type Once struct {
	m    Mutex
	done bool
	vc   VC
}

func (o *Once) Do(f func()) {
	s := cur
	if s != nil && s.killing {
		return
	}
	if s != nil {
		s.yield(&pending{kind: "once"})
	}
	if o.done {
		if s != nil {
			s.acquire(&o.vc)
		}
		return
	}
	o.m.Lock()
	defer o.m.Unlock()
	if !o.done {
		defer func() {
			o.done = true
			if s != nil && !s.killing {
				s.release(&o.vc)
			}
		}()
		f()
	}
}

func OnceFunc(f func()) func() {
	var o Once
	return func() { o.Do(f) }
}

func OnceValue[T any](f func() T) func() T {
	var o Once
	var v T
	return func() T { o.Do(func() { v = f() }); return v }
}

func OnceValues[T1, T2 any](f func() (T1, T2)) func() (T1, T2) {
	var o Once
	var v1 T1
	var v2 T2
	return func() (T1, T2) { o.Do(func() { v1, v2 = f() }); return v1, v2 }
}

// Cond: waiters are woken by Signal (one, chosen) or Broadcast (all).
type Cond struct {
	L       Locker
	id      int
	waiters []*condWaiter
	vc      VC
}

type condWaiter struct{ woken bool }

func NewCond(l Locker) *Cond { return &Cond{L: l} }

func (c *Cond) Wait() {
	s := cur
	if s == nil {
		panic("simrt: Cond.Wait outside a simulation")
	}
	if s.killing {
		return
	}
	s.objID(&c.id)
	w := &condWaiter{}
	c.waiters = append(c.waiters, w)
	c.L.Unlock()
	s.yield(&pending{kind: "cond.wait", obj: c.id, enabled: func() bool { return w.woken }})
	s.acquire(&c.vc)
	c.L.Lock()
}

func (c *Cond) Signal() {
	s := cur
	if s == nil || s.killing {
		return
	}
	s.objID(&c.id)
	s.yield(&pending{kind: "cond.signal", obj: c.id})
	s.release(&c.vc)
	var live []int
	for i, w := range c.waiters {
		if !w.woken {
			live = append(live, i)
		}
	}
	if len(live) == 0 {
		return
	}
	i := live[s.ch.Choose("cond.pick", len(live))]
	c.waiters[i].woken = true
	c.waiters = append(c.waiters[:i], c.waiters[i+1:]...)
}

func (c *Cond) Broadcast() {
	s := cur
	if s == nil || s.killing {
		return
	}
	s.objID(&c.id)
	s.yield(&pending{kind: "cond.broadcast", obj: c.id})
	s.release(&c.vc)
	for _, w := range c.waiters {
		w.woken = true
	}
	c.waiters = nil
}

// Pool: sync.Pool may drop any object at any time and hands out objects in no
// particular order, so Get asks the chooser: 0 = call New (as if everything had
// been dropped), k = the k-th most recently put object.
type Pool struct {
	New   func() any
	id    int
	items []poolItem
	seen  bool
}

func (p *Pool) register(s *Sim) {
	if !p.seen {
		p.seen = true
		s.pools = append(s.pools, p)
	}
}

type poolItem struct {
	v  any
	vc VC
}

func (p *Pool) Get() any {
	s := cur
	if s == nil || s.killing {
		if n := len(p.items); n > 0 && s == nil {
			v := p.items[n-1].v
			p.items = p.items[:n-1]
			return v
		}
		if p.New != nil {
			return p.New()
		}
		return nil
	}
	s.objID(&p.id)
	p.register(s)
	if s.poolFresh {
		// reference computations: as if the pool had dropped everything
		if p.New != nil {
			return p.New()
		}
		return nil
	}
	s.yield(&pending{kind: "pool.get", obj: p.id})
	n := len(p.items)
	if n > 4 {
		n = 4
	}
	k := s.ch.Choose("pool.get", n+1)
	if k == 0 {
		if len(p.items) > 0 {
			s.res.Faults["pool.miss_with_items"]++
		}
		s.event(s.cur, "pool.new", p.id, "", "")
		if p.New != nil {
			return p.New()
		}
		return nil
	}
	if k > 1 {
		s.res.Faults["pool.stale_pick"]++
	}
	i := len(p.items) - k
	it := p.items[i]
	p.items = append(p.items[:i], p.items[i+1:]...)
	if !s.cfg.NoRace {
		s.cur.vc.join(it.vc)
	}
	s.event(s.cur, "pool.reuse", p.id, "", "")
	return it.v
}

func (p *Pool) Put(x any) {
	if x == nil {
		return
	}
	s := cur
	if s == nil {
		p.items = append(p.items, poolItem{v: x})
		return
	}
	if s.killing || s.poolFresh {
		return
	}
	s.objID(&p.id)
	p.register(s)
	s.yield(&pending{kind: "pool.put", obj: p.id})
	it := poolItem{v: x}
	if !s.cfg.NoRace {
		it.vc = s.cur.vc.clone()
		s.cur.vc.tick(s.cur.id)
	}
	p.items = append(p.items, it)
	if len(p.items) > 16 {
		p.items = p.items[1:]
	}
	s.event(s.cur, "pool.put", p.id, "", "")
}

// Map is a minimal sync.Map (insertion-ordered, so Range is deterministic).
type Map struct {
	mu   Mutex
	keys []any
	m    map[any]any
}

func (m *Map) Load(k any) (any, bool) {
	m.mu.Lock()
	defer m.mu.Unlock()
	v, ok := m.m[k]
	return v, ok
}

func (m *Map) Store(k, v any) {
	m.mu.Lock()
	defer m.mu.Unlock()
	if m.m == nil {
		m.m = map[any]any{}
	}
	if _, ok := m.m[k]; !ok {
		m.keys = append(m.keys, k)
	}
	m.m[k] = v
}

func (m *Map) LoadOrStore(k, v any) (any, bool) {
	m.mu.Lock()
	defer m.mu.Unlock()
	if old, ok := m.m[k]; ok {
		return old, true
	}
	if m.m == nil {
		m.m = map[any]any{}
	}
	m.keys = append(m.keys, k)
	m.m[k] = v
	return v, false
}

func (m *Map) LoadAndDelete(k any) (any, bool) {
	m.mu.Lock()
	defer m.mu.Unlock()
	v, ok := m.m[k]
	if ok {
		delete(m.m, k)
		for i, kk := range m.keys {
			if kk == k {
				m.keys = append(m.keys[:i], m.keys[i+1:]...)
				break
			}
		}
	}
	return v, ok
}

func (m *Map) Delete(k any) { m.LoadAndDelete(k) }

func (m *Map) Swap(k, v any) (any, bool) {
	m.mu.Lock()
	old, ok := m.m[k]
	m.mu.Unlock()
	m.Store(k, v)
	return old, ok
}

func (m *Map) CompareAndSwap(k, old, new any) bool {
	m.mu.Lock()
	defer m.mu.Unlock()
	if v, ok := m.m[k]; ok && v == old {
		m.m[k] = new
		return true
	}
	return false
}

func (m *Map) CompareAndDelete(k, old any) bool {
	m.mu.Lock()
	v, ok := m.m[k]
	m.mu.Unlock()
	if ok && v == old {
		m.Delete(k)
		return true
	}
	return false
}

func (m *Map) Range(f func(k, v any) bool) {
	m.mu.Lock()
	keys := append([]any(nil), m.keys...)
	m.mu.Unlock()
	for _, k := range keys {
		v, ok := m.Load(k)
		if !ok {
			continue
		}
		if !f(k, v) {
			return
		}
	}
}

func (m *Map) Clear() {
	m.mu.Lock()
	defer m.mu.Unlock()
	m.m = nil
	m.keys = nil
}

// SetPoolFresh makes every Pool.Get call New and every Put a no-op (no
// schedule point, no choice): worlds use it while computing an isolated
// reference result inside a run.
func SetPoolFresh(on bool) {
	if cur != nil {
		cur.poolFresh = on
	}
}

// blockSite is the source position of the code that called the blocking
// primitive (two frames up), relative to the rewritten tree.
func blockSite() string {
	_, file, line, ok := runtime.Caller(2)
	if !ok {
		return ""
	}
	if i := strings.LastIndex(file, "/glb/"); i >= 0 {
		file = file[i+5:]
	}
	return fmt.Sprintf("%s:%d", file, line)
}
