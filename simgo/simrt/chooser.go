package simrt

// Chooser is the single source of every decision taken in a simulated run:
// scheduling, select-case choice, pool behaviour, faults and the workload
// shape drawn by the world. 0 is always the "simplest" answer, which is what
// lets a generic list reducer shrink a failing run.
type Chooser interface {
	Choose(kind string, n int) int
}

// Choice is one recorded decision.
type Choice struct {
	Kind string
	N    int
	V    int
}

// splitmix64 PRNG; a run is a pure function of (seed, run index).
type PRNG struct{ s uint64 }

func NewPRNG(seed uint64, run uint64) *PRNG {
	p := &PRNG{s: seed*0x9E3779B97F4A7C15 ^ (run+1)*0xD1B54A32D192ED03}
	p.next()
	p.next()
	return p
}

func (p *PRNG) next() uint64 {
	p.s += 0x9E3779B97F4A7C15
	z := p.s
	z = (z ^ (z >> 30)) * 0xBF58476D1CE4E5B9
	z = (z ^ (z >> 27)) * 0x94D049BB133111EB
	return z ^ (z >> 31)
}

func (p *PRNG) Choose(kind string, n int) int {
	if n <= 1 {
		return 0
	}
	return int(p.next() % uint64(n))
}

// Trace replays a recorded list of values; beyond its end, or for values out
// of range, it answers 0, so that every list is a valid run.
type Trace struct {
	vals []int
	pos  int
}

func NewTrace(vals []int) *Trace { return &Trace{vals: vals} }

func (t *Trace) Choose(kind string, n int) int {
	if n <= 1 {
		return 0
	}
	if t.pos >= len(t.vals) {
		return 0
	}
	v := t.vals[t.pos]
	t.pos++
	if v < 0 || v >= n {
		return 0
	}
	return v
}

// Recorder wraps a chooser and logs what was asked and what was answered.
type Recorder struct {
	In  Chooser
	Log []Choice
}

func (r *Recorder) Choose(kind string, n int) int {
	if n <= 1 {
		return 0
	}
	v := r.In.Choose(kind, n)
	r.Log = append(r.Log, Choice{kind, n, v})
	return v
}

func (r *Recorder) Values() []int {
	out := make([]int, len(r.Log))
	for i, c := range r.Log {
		out[i] = c.V
	}
	return out
}
