package simrt

import (
	"reflect"
	"unsafe"
)

// VC is a vector clock indexed by task id.
type VC []uint32

func (v VC) clone() VC {
	o := make(VC, len(v))
	copy(o, v)
	return o
}

func (v *VC) tick(id int) {
	for len(*v) <= id {
		*v = append(*v, 0)
	}
	(*v)[id]++
}

func (v *VC) join(o VC) {
	for len(*v) < len(o) {
		*v = append(*v, 0)
	}
	for i, c := range o {
		if c > (*v)[i] {
			(*v)[i] = c
		}
	}
}

func (v VC) get(id int) uint32 {
	if id < len(v) {
		return v[id]
	}
	return 0
}

// acquire: the running task learns everything released into o.
func (s *Sim) acquire(o *VC) {
	if s.cfg.NoRace || o == nil {
		return
	}
	s.cur.vc.join(*o)
}

// release: o learns everything the running task has done; the task moves on.
func (s *Sim) release(o *VC) {
	if s.cfg.NoRace {
		return
	}
	t := s.cur
	o.join(t.vc)
	t.vc.tick(t.id)
}

// releaseStore: like release but o is replaced (a mutex hand-over).
func (s *Sim) releaseStore(o *VC) {
	if s.cfg.NoRace {
		return
	}
	t := s.cur
	*o = t.vc.clone()
	t.vc.tick(t.id)
}

type access struct {
	task   int
	clk    uint32
	mask   uint8
	atomic bool
	site   string
}

type shadowWord struct {
	writes []access
	reads  []access
}

func (s *Sim) ordered(a access, t *Task) bool {
	return a.task == t.id || a.clk <= t.vc.get(a.task)
}

func (s *Sim) reportRace(a access, aWrite bool, t *Task, site string, write, atomic bool) {
	k1, k2 := "read", "read"
	if aWrite {
		k1 = "write"
	}
	if write {
		k2 = "write"
	}
	if a.atomic {
		k1 = "atomic-" + k1
	}
	if atomic {
		k2 = "atomic-" + k2
	}
	key := a.site + "|" + site + "|" + k1 + k2
	if s.raceSeen[key] {
		return
	}
	s.raceSeen[key] = true
	s.res.Races = append(s.res.Races, Race{Site1: a.site, Site2: site, Kind1: k1, Kind2: k2, Task1: a.task, Task2: t.id, Seq: s.seq})
	s.event(t, "race", 0, site, a.site)
}

func (s *Sim) accessRange(p unsafe.Pointer, size uintptr, write, atomic bool, site string) {
	if size == 0 {
		return
	}
	t := s.cur
	if t == nil {
		return
	}
	addr := uintptr(p)
	end := addr + size
	first := true
	for w := addr &^ 7; w < end; w += 8 {
		lo, hi := uintptr(0), uintptr(8)
		if addr > w {
			lo = addr - w
		}
		if end < w+8 {
			hi = end - w
		}
		var mask uint8
		for b := lo; b < hi; b++ {
			mask |= 1 << b
		}
		sw := s.shadow[w]
		if sw == nil {
			sw = &shadowWord{}
			s.shadow[w] = sw
			if first {
				// keep the object alive so that its address is never reused
				// by another allocation during this run
				s.keep = append(s.keep, p)
				first = false
			}
		}
		s.accessWord(sw, t, mask, write, atomic, site)
	}
}

func (s *Sim) accessWord(sw *shadowWord, t *Task, mask uint8, write, atomic bool, site string) {
	me := access{task: t.id, clk: t.vc.get(t.id), mask: mask, atomic: atomic, site: site}
	for _, a := range sw.writes {
		if a.mask&mask != 0 && !(a.atomic && atomic) && !s.ordered(a, t) {
			s.reportRace(a, true, t, site, write, atomic)
		}
	}
	if write {
		for _, a := range sw.reads {
			if a.mask&mask != 0 && !(a.atomic && atomic) && !s.ordered(a, t) {
				s.reportRace(a, false, t, site, write, atomic)
			}
		}
		// drop entries this write covers and is ordered after
		keepW := sw.writes[:0]
		for _, a := range sw.writes {
			if a.mask&^mask == 0 && s.ordered(a, t) {
				continue
			}
			keepW = append(keepW, a)
		}
		sw.writes = append(keepW, me)
		keepR := sw.reads[:0]
		for _, a := range sw.reads {
			if a.mask&^mask == 0 && s.ordered(a, t) {
				continue
			}
			keepR = append(keepR, a)
		}
		sw.reads = keepR
		return
	}
	keepR := sw.reads[:0]
	for _, a := range sw.reads {
		if a.mask&^mask == 0 && a.atomic == atomic && s.ordered(a, t) {
			continue
		}
		keepR = append(keepR, a)
	}
	sw.reads = append(keepR, me)
	if len(sw.reads) > 64 {
		sw.reads = sw.reads[len(sw.reads)-64:]
	}
}

// accessPoint is a potential pre-emption point: the run's pre-emption plan
// says at which access counts the running task is forced to give way.
func (s *Sim) accessPoint(site string) {
	s.accessCnt++
	if len(s.preemptAt) == 0 || s.accessCnt != s.preemptAt[0] {
		return
	}
	s.preemptAt = s.preemptAt[1:]
	t := s.cur
	var others []*Task
	for _, o := range s.tasks {
		if o != t && s.isEnabled(o) {
			others = append(others, o)
		}
	}
	if len(others) == 0 {
		return
	}
	next := others[s.ch.Choose("preempt.pick", len(others))]
	s.res.Preempts++
	s.steps++
	s.mix(uint64(next.id)<<8 | 2)
	s.mixShape(next)
	t.pend = &pending{kind: "preempted", site: site}
	s.cur = next
	next.lastRun = s.steps
	next.wake <- struct{}{}
	<-t.wake
	if s.killing {
		goexitNow()
	}
	t.pend = nil
}

// Rd records a read of *p by the running task and returns p. The rewriter
// wraps shared-memory reads in place as *simrt.Rd(&x.f, site).
func Rd[T any](p *T, site string) *T {
	s := cur
	if s == nil || s.killing {
		return p
	}
	s.accessPoint(site)
	if !s.cfg.NoRace {
		s.accessRange(unsafe.Pointer(p), unsafe.Sizeof(*p), false, false, site)
	}
	return p
}

// Wr records a write of *p by the running task and returns p.
func Wr[T any](p *T, site string) *T {
	s := cur
	if s == nil || s.killing {
		return p
	}
	s.accessPoint(site)
	if !s.cfg.NoRace {
		s.accessRange(unsafe.Pointer(p), unsafe.Sizeof(*p), true, false, site)
	}
	return p
}

// MapRd records a read of the map object m (Go's rule: a map is one location).
func MapRd[M ~map[K]V, K comparable, V any](m M, site string) M {
	s := cur
	if s == nil || s.killing || m == nil {
		return m
	}
	s.accessPoint(site)
	if !s.cfg.NoRace {
		s.accessRange(reflect.ValueOf(m).UnsafePointer(), 8, false, false, site)
	}
	return m
}

// MapWr records a write of the map object m.
func MapWr[M ~map[K]V, K comparable, V any](m M, site string) M {
	s := cur
	if s == nil || s.killing || m == nil {
		return m
	}
	s.accessPoint(site)
	if !s.cfg.NoRace {
		s.accessRange(reflect.ValueOf(m).UnsafePointer(), 8, true, false, site)
	}
	return m
}

// atomicAccess is called by the function-style atomics (atomic.AddUint64(&x,…))
// so that a mix of atomic and plain accesses to one word is still a race.
func (s *Sim) atomicAccess(p unsafe.Pointer, size uintptr, write bool, site string) {
	if s.cfg.NoRace {
		return
	}
	s.accessRange(p, size, write, true, site)
}

// ---- append and copy ----
//
// append(s, e...) within capacity writes into memory that every other slice of
// the same array sees; two tasks appending to copies of one slice header write
// the same bytes. The rewriter routes append and copy through these helpers so
// that such writes take part in race detection and are pre-emption points.

func (s *Sim) sparseRange(p unsafe.Pointer, size uintptr, write bool, site string) {
	if size <= 512 {
		s.accessRange(p, size, write, false, site)
		return
	}
	// long ranges: the head, the tail and one word per KiB
	s.accessRange(p, 256, write, false, site)
	s.accessRange(unsafe.Add(p, size-64), 64, write, false, site)
	for off := uintptr(1024); off+8 < size-64; off += 1024 {
		s.accessRange(unsafe.Add(p, off), 8, write, false, site)
	}
}

func noteAppend(site string, oldData unsafe.Pointer, oldLen int, newData unsafe.Pointer, newLen int, esz uintptr) {
	s := cur
	if s == nil || s.killing {
		return
	}
	s.accessPoint(site)
	if s.cfg.NoRace || esz == 0 || newLen <= oldLen {
		return
	}
	if newData == oldData && oldData != nil {
		s.sparseRange(unsafe.Add(oldData, uintptr(oldLen)*esz), uintptr(newLen-oldLen)*esz, true, site)
	} else if oldLen > 0 {
		// grown into a new array: the old elements were read
		s.sparseRange(oldData, uintptr(oldLen)*esz, false, site)
	}
}

func noteCopy(site string, dst, src unsafe.Pointer, n int, esz uintptr) {
	s := cur
	if s == nil || s.killing {
		return
	}
	s.accessPoint(site)
	if s.cfg.NoRace || esz == 0 || n <= 0 {
		return
	}
	if src != nil {
		s.sparseRange(src, uintptr(n)*esz, false, site)
	}
	s.sparseRange(dst, uintptr(n)*esz, true, site)
}

// Append is append(s, e...).
func Append[S ~[]E, E any](site string, s S, e ...E) S {
	r := append(s, e...)
	var z E
	noteAppend(site, unsafe.Pointer(unsafe.SliceData(s)), len(s), unsafe.Pointer(unsafe.SliceData(r)), len(r), unsafe.Sizeof(z))
	return r
}

// AppendSlice is append(s, e...) with a slice e.
func AppendSlice[S ~[]E, E any](site string, s S, e []E) S {
	r := append(s, e...)
	var z E
	noteAppend(site, unsafe.Pointer(unsafe.SliceData(s)), len(s), unsafe.Pointer(unsafe.SliceData(r)), len(r), unsafe.Sizeof(z))
	return r
}

// AppendString is append(s, str...) for a byte slice s.
func AppendString[S ~[]byte](site string, s S, e string) S {
	r := append(s, e...)
	noteAppend(site, unsafe.Pointer(unsafe.SliceData(s)), len(s), unsafe.Pointer(unsafe.SliceData(r)), len(r), 1)
	return r
}

// Copy is copy(dst, src).
func Copy[E any](site string, dst, src []E) int {
	n := len(dst)
	if len(src) < n {
		n = len(src)
	}
	var z E
	noteCopy(site, unsafe.Pointer(unsafe.SliceData(dst)), unsafe.Pointer(unsafe.SliceData(src)), n, unsafe.Sizeof(z))
	return copy(dst, src)
}

// CopyString is copy(dst, str).
func CopyString(site string, dst []byte, src string) int {
	n := len(dst)
	if len(src) < n {
		n = len(src)
	}
	noteCopy(site, unsafe.Pointer(unsafe.SliceData(dst)), nil, n, 1) // string bytes are immutable
	return copy(dst, src)
}
