package simrt

import (
	"fmt"
	"sort"
	"strings"
	"testing"
	"time"
)

// Conformance of the simulated primitives: each micro-program has an outcome
// set derived from the language specification / memory model / package docs.
// Under simrt, over many seeds, the set of observed outcomes must EQUAL the
// allowed set: nothing outside it (a wrong primitive is a false-alarm
// generator) and every allowed outcome reached (a primitive that cannot reach
// a legal behaviour hides bugs).

type microProg struct {
	name    string
	allowed []string
	must    []string // outcomes that have to be reached (default: all allowed)
	end     string // expected Result.End ("ok" default)
	prog    func() string
}

func runMicro(t *testing.T, p microProg, seeds int) {
	t.Helper()
	seen := map[string]int{}
	wantEnd := p.end
	if wantEnd == "" {
		wantEnd = "ok"
	}
	for i := 0; i < seeds; i++ {
		var out string
		res := Run(RunConfig{StepCap: 20000}, NewPRNG(7, uint64(i)), func() { out = p.prog() })
		if res.End != wantEnd {
			t.Fatalf("%s seed %d: end=%s want %s blocked=%v", p.name, i, res.End, wantEnd, res.Blocked)
		}
		if len(res.Panics) > 0 {
			out = "PANIC:" + res.Panics[0].Value
		}
		seen[out]++
	}
	allowed := map[string]bool{}
	for _, a := range p.allowed {
		allowed[a] = true
	}
	for o := range seen {
		if !allowed[o] {
			t.Errorf("%s: outcome %q is outside the allowed set %v", p.name, o, p.allowed)
		}
	}
	must := p.must
	if must == nil {
		must = p.allowed
	}
	for _, a := range must {
		if seen[a] == 0 {
			t.Errorf("%s: allowed outcome %q never reached (seen %v)", p.name, a, seen)
		}
	}
}

// foreignCtx is a caller's own Context implementation: package context (and the
// simulated one) cannot see through it and has to watch its Done channel.
type foreignCtx struct{ inner Context }

func (f foreignCtx) Deadline() (time.Time, bool) { return f.inner.Deadline() }
func (f foreignCtx) Done() *Chan[struct{}]       { return f.inner.Done() }
func (f foreignCtx) Err() error                  { return f.inner.Err() }
func (f foreignCtx) Value(any) any               { return nil }

func join(xs []string) string { sort.Strings(xs); return strings.Join(xs, ",") }

var micros = []microProg{
	{name: "unbuffered rendezvous", allowed: []string{"7"}, prog: func() string {
		c := MakeChan[int](0)
		Go("s", func() { c.Send(7) })
		return fmt.Sprint(c.Recv())
	}},
	{name: "buffered fifo", allowed: []string{"1 2 3"}, prog: func() string {
		c := MakeChan[int](3)
		c.Send(1)
		c.Send(2)
		c.Send(3)
		return fmt.Sprint(c.Recv(), c.Recv(), c.Recv())
	}},
	{name: "send blocks when full", allowed: []string{"recv-first"}, prog: func() string {
		c := MakeChan[int](1)
		c.Send(1)
		order := ""
		Go("s", func() { c.Send(2); order += "sent2" })
		Quiesce()
		if order != "" {
			return "send did not block"
		}
		c.Recv()
		Quiesce()
		if order != "sent2" {
			return "send not released"
		}
		return "recv-first"
	}},
	{name: "recv closed drained", allowed: []string{"5 true 0 false"}, prog: func() string {
		c := MakeChan[int](2)
		c.Send(5)
		c.Close()
		a, ok1 := c.Recv2()
		b, ok2 := c.Recv2()
		return fmt.Sprint(a, ok1, b, ok2)
	}},
	{name: "close wakes receivers", allowed: []string{"false false"}, prog: func() string {
		c := MakeChan[int](0)
		r := MakeChan[bool](2)
		for i := 0; i < 2; i++ {
			Go("r", func() { _, ok := c.Recv2(); r.Send(ok) })
		}
		Quiesce()
		c.Close()
		return fmt.Sprint(r.Recv(), r.Recv())
	}},
	{name: "send on closed panics", allowed: []string{"PANIC:send on closed channel"}, prog: func() string {
		c := MakeChan[int](1)
		c.Close()
		c.Send(1)
		return "no panic"
	}},
	{name: "blocked sender panics on close", allowed: []string{"panic:send on closed channel"}, prog: func() string {
		c := MakeChan[int](0)
		out := MakeChan[string](1)
		Go("s", func() {
			defer func() { out.Send(fmt.Sprint("panic:", recover())) }()
			c.Send(1)
		})
		Quiesce()
		c.Close()
		return out.Recv()
	}},
	{name: "close twice panics", allowed: []string{"PANIC:close of closed channel"}, prog: func() string {
		c := MakeChan[int](0)
		c.Close()
		c.Close()
		return ""
	}},
	{name: "close nil panics", allowed: []string{"PANIC:close of nil channel"}, prog: func() string {
		var c *Chan[int]
		c.Close()
		return ""
	}},
	{name: "nil channel never ready", allowed: []string{"default"}, prog: func() string {
		var c *Chan[int]
		if Select("", true, RecvOf(c), SendOf(c, 1)) == -1 {
			return "default"
		}
		return "ready"
	}},
	{name: "nil channel blocks forever", allowed: []string{""}, end: "deadlock", prog: func() string {
		var c *Chan[int]
		c.Recv()
		return "returned"
	}},
	{name: "select picks any ready case", allowed: []string{"0", "1", "2"}, prog: func() string {
		a, b, c := MakeChan[int](1), MakeChan[int](1), MakeChan[int](1)
		a.Send(1)
		b.Send(1)
		return fmt.Sprint(Select("", false, RecvOf(a), RecvOf(b), SendOf(c, 1)))
	}},
	{name: "select default only when none ready", allowed: []string{"-1 0"}, prog: func() string {
		a := MakeChan[int](1)
		x := Select("", true, RecvOf(a))
		a.Send(1)
		y := Select("", true, RecvOf(a))
		return fmt.Sprint(x, y)
	}},
	{name: "parked select leaves no stale offer", allowed: []string{"a=1 b-intact", "b=2 a-intact"}, prog: func() string {
		// one receiver selects on a and b; a value sent on the channel that was
		// not chosen must stay available to a later receive.
		a, b := MakeChan[int](0), MakeChan[int](0)
		res := MakeChan[string](1)
		Go("sel", func() {
			ra, rb := RecvOf(a), RecvOf(b)
			switch Select("", false, ra, rb) {
			case 0:
				res.Send(fmt.Sprint("a=", ra.V))
			case 1:
				res.Send(fmt.Sprint("b=", rb.V))
			}
		})
		Go("sa", func() { a.Send(1) })
		Go("sb", func() { b.Send(2) })
		first := res.Recv()
		if first == "a=1" {
			if b.Recv() != 2 {
				return "b lost"
			}
			return "a=1 b-intact"
		}
		if a.Recv() != 1 {
			return "a lost"
		}
		return "b=2 a-intact"
	}},
	{name: "two selects rendezvous", allowed: []string{"got 9"}, prog: func() string {
		c, d := MakeChan[int](0), MakeChan[int](0)
		res := MakeChan[int](1)
		Go("r", func() {
			r := RecvOf(c)
			Select("", false, r, RecvOf(d))
			res.Send(r.V)
		})
		Select("", false, SendOf(c, 9))
		return fmt.Sprint("got ", res.Recv())
	}},
	{name: "select with default meets parked sender", allowed: []string{"got", "default"}, prog: func() string {
		c := MakeChan[int](0)
		Go("s", func() { c.Send(1) })
		r := RecvOf(c)
		if Select("", true, r) == 0 {
			return "got"
		}
		c.Recv()
		return "default"
	}},
	{name: "range over channel", allowed: []string{"6"}, prog: func() string {
		c := MakeChan[int](0)
		Go("p", func() {
			for i := 1; i <= 3; i++ {
				c.Send(i)
			}
			c.Close()
		})
		sum := 0
		for v, ok := c.Recv2(); ok; v, ok = c.Recv2() {
			sum += v
		}
		return fmt.Sprint(sum)
	}},
	{name: "mutex excludes", allowed: []string{"100"}, prog: func() string {
		var mu Mutex
		var wg WaitGroup
		n := 0
		wg.Add(4)
		for i := 0; i < 4; i++ {
			Go("w", func() {
				defer wg.Done()
				for j := 0; j < 25; j++ {
					mu.Lock()
					v := n
					Yield("")
					n = v + 1
					mu.Unlock()
				}
			})
		}
		wg.Wait()
		return fmt.Sprint(n)
	}},
	{name: "no mutex loses updates sometimes", allowed: []string{"ok", "lost"}, prog: func() string {
		var wg WaitGroup
		n := 0
		wg.Add(2)
		for i := 0; i < 2; i++ {
			Go("w", func() {
				defer wg.Done()
				for j := 0; j < 3; j++ {
					v := n
					Yield("")
					n = v + 1
				}
			})
		}
		wg.Wait()
		if n == 6 {
			return "ok"
		}
		return "lost"
	}},
	{name: "unlock of unlocked mutex is fatal", allowed: []string{"PANIC:fatal error: sync: unlock of unlocked mutex"}, prog: func() string {
		var mu Mutex
		mu.Unlock()
		return ""
	}},
	{name: "rwmutex readers share writers exclude", allowed: []string{"ok"}, prog: func() string {
		var mu RWMutex
		var wg WaitGroup
		readers, writers, bad, maxR := 0, 0, false, 0
		wg.Add(5)
		for i := 0; i < 3; i++ {
			Go("r", func() {
				defer wg.Done()
				mu.RLock()
				readers++
				if writers > 0 {
					bad = true
				}
				if readers > maxR {
					maxR = readers
				}
				Yield("")
				readers--
				mu.RUnlock()
			})
		}
		for i := 0; i < 2; i++ {
			Go("w", func() {
				defer wg.Done()
				mu.Lock()
				writers++
				if writers > 1 || readers > 0 {
					bad = true
				}
				Yield("")
				writers--
				mu.Unlock()
			})
		}
		wg.Wait()
		if bad {
			return "bad"
		}
		return "ok"
	}},
	{name: "rwmutex readers can overlap", allowed: []string{"1", "2"}, prog: func() string {
		var mu RWMutex
		var wg WaitGroup
		readers, maxR := 0, 0
		wg.Add(2)
		for i := 0; i < 2; i++ {
			Go("r", func() {
				defer wg.Done()
				mu.RLock()
				readers++
				if readers > maxR {
					maxR = readers
				}
				Yield("")
				readers--
				mu.RUnlock()
			})
		}
		wg.Wait()
		return fmt.Sprint(maxR)
	}},
	{name: "rwmutex pending writer blocks new readers", allowed: []string{"blocked"}, prog: func() string {
		var mu RWMutex
		mu.RLock()
		got := false
		Go("w", func() { mu.Lock(); mu.Unlock() })
		Quiesce()
		Go("r", func() { mu.RLock(); got = true; mu.RUnlock() })
		Quiesce()
		if got {
			return "reader overtook writer"
		}
		mu.RUnlock()
		Quiesce()
		if !got {
			return "reader never ran"
		}
		return "blocked"
	}},
	{name: "waitgroup reuse", allowed: []string{"2 4"}, prog: func() string {
		var wg WaitGroup
		n := 0
		round := func() {
			wg.Add(2)
			for i := 0; i < 2; i++ {
				Go("w", func() { n++; wg.Done() })
			}
			wg.Wait()
		}
		round()
		a := n
		round()
		return fmt.Sprint(a, n)
	}},
	{name: "waitgroup negative panics", allowed: []string{"PANIC:sync: negative WaitGroup counter"}, prog: func() string {
		var wg WaitGroup
		wg.Done()
		return ""
	}},
	{name: "once runs once", allowed: []string{"1"}, prog: func() string {
		var o Once
		var wg WaitGroup
		n := 0
		wg.Add(3)
		for i := 0; i < 3; i++ {
			Go("w", func() { o.Do(func() { n++ }); wg.Done() })
		}
		wg.Wait()
		return fmt.Sprint(n)
	}},
	{name: "atomic add", allowed: []string{"8"}, prog: func() string {
		var a Uint32
		var wg WaitGroup
		wg.Add(4)
		for i := 0; i < 4; i++ {
			Go("w", func() { a.Add(1); a.Add(1); wg.Done() })
		}
		wg.Wait()
		return fmt.Sprint(a.Load())
	}},
	{name: "atomic decrement wraps", allowed: []string{"0"}, prog: func() string {
		var a Uint32
		a.Add(1)
		a.Add(^uint32(0))
		return fmt.Sprint(a.Load())
	}},
	{name: "atomic.Value inconsistent type panics", allowed: []string{"PANIC:sync/atomic: store of inconsistently typed value into Value"}, prog: func() string {
		var v Value
		v.Store("s")
		v.Store(1)
		return ""
	}},
	{name: "atomic.Value nil panics", allowed: []string{"PANIC:sync/atomic: store of nil value into Value"}, prog: func() string {
		var v Value
		v.Store(nil)
		return ""
	}},
	{name: "function atomics", allowed: []string{"6 true 9"}, prog: func() string {
		var x uint64
		AtomAdd(&x, 5)
		AtomAdd(&x, 1)
		a := AtomLoad(&x)
		ok := AtomCAS(&x, 6, 9)
		return fmt.Sprint(a, ok, AtomLoad(&x))
	}},
	{name: "pool new or reuse", allowed: []string{"new", "reused"}, prog: func() string {
		p := Pool{New: func() any { return "new" }}
		p.Put("reused")
		return p.Get().(string)
	}},
	{name: "pool may return any put object", allowed: []string{"a", "b", "new"}, prog: func() string {
		p := Pool{New: func() any { return "new" }}
		p.Put("a")
		p.Put("b")
		return p.Get().(string)
	}},
	{name: "pool without New", allowed: []string{"<nil>"}, prog: func() string {
		var p Pool
		return fmt.Sprint(p.Get())
	}},
	{name: "timers fire in order (any order once the clock has jumped past several)", allowed: []string{"a b c 30ms", "a c b 30ms", "b a c 30ms", "b c a 30ms", "c a b 30ms", "c b a 30ms"}, must: []string{"a b c 30ms", "a c b 30ms"}, prog: func() string {
		c := After(30 * time.Millisecond)
		a := After(10 * time.Millisecond)
		b := After(20 * time.Millisecond)
		start := Now()
		out := ""
		for i := 0; i < 3; i++ {
			switch Select("", false, RecvOf(a), RecvOf(b), RecvOf(c)) {
			case 0:
				out += "a "
			case 1:
				out += "b "
			case 2:
				out += "c "
			}
		}
		return out + Since(start).String()
	}},
	{name: "sleep advances the clock", allowed: []string{"1s"}, prog: func() string {
		t0 := Now()
		Sleep(time.Second)
		return Since(t0).String()
	}},
	{name: "timer stop", allowed: []string{"true false", "false true"}, prog: func() string {
		tm := NewTimer(time.Second)
		a := tm.Stop()
		Sleep(2 * time.Second)
		_, _, got := tm.C.TryRecv()
		return fmt.Sprint(a, got)
	}},
	{name: "timeout versus ready value", allowed: []string{"value", "timeout"}, prog: func() string {
		c := MakeChan[int](0)
		Go("s", func() { Sleep(time.Second); c.Send(1) })
		r := RecvOf(c)
		if Select("", false, r, RecvOf(After(time.Second))) == 0 {
			return "value"
		}
		c.Recv()
		return "timeout"
	}},
	{name: "afterfunc runs in its own task", allowed: []string{"ran 5ms"}, prog: func() string {
		done := MakeChan[time.Duration](1)
		t0 := Now()
		AfterFunc(5*time.Millisecond, func() { done.Send(Since(t0)) })
		return "ran " + done.Recv().String()
	}},
	{name: "context cancel propagates to children", allowed: []string{"context canceled context canceled <nil>"}, prog: func() string {
		root, cancelRoot := WithCancel(Background())
		_ = cancelRoot
		p, cancel := WithCancel(root)
		c, _ := WithCancel(WithValue(p, "k", 1))
		cancel()
		c.Done().Recv()
		return fmt.Sprint(p.Err(), c.Err(), root.Err())
	}},
	{name: "context child of cancelled parent", allowed: []string{"context canceled"}, prog: func() string {
		p, cancel := WithCancel(Background())
		cancel()
		c, _ := WithCancel(p)
		_, _, ready := c.Done().TryRecv()
		if !ready {
			return "not done"
		}
		return fmt.Sprint(c.Err())
	}},
	{name: "context child of a foreign parent is cancelled later, by a watcher task", allowed: []string{"parent-done child-live context canceled", "parent-done child-done context canceled"}, prog: func() string {
		inner, cancel := WithCancel(Background())
		c, _ := WithCancel(foreignCtx{inner})
		Go("canceller", func() { cancel() })
		inner.Done().Recv()
		out := "parent-done child-live "
		if _, _, ready := c.Done().TryRecv(); ready {
			out = "parent-done child-done "
		}
		c.Done().Recv()
		return out + fmt.Sprint(c.Err())
	}},
	{name: "context child of a foreign parent: own cancel ends the watcher", allowed: []string{"context canceled <nil>"}, prog: func() string {
		inner, _ := WithCancel(Background())
		c, cancel := WithCancel(foreignCtx{inner})
		cancel()
		Quiesce()
		return fmt.Sprint(c.Err(), inner.Err())
	}},
	{name: "context deadline", allowed: []string{"context deadline exceeded 50ms"}, prog: func() string {
		t0 := Now()
		c, _ := WithTimeout(Background(), 50*time.Millisecond)
		c.Done().Recv()
		return fmt.Sprint(c.Err(), " ", Since(t0))
	}},
	{name: "context expired deadline", allowed: []string{"context deadline exceeded"}, prog: func() string {
		c, _ := WithDeadline(Background(), Now().Add(-time.Second))
		return fmt.Sprint(c.Err())
	}},
	{name: "cond signal wakes one", allowed: []string{"1 2"}, prog: func() string {
		var mu Mutex
		c := NewCond(&mu)
		woken := 0
		for i := 0; i < 2; i++ {
			Go("w", func() { mu.Lock(); c.Wait(); woken++; mu.Unlock() })
		}
		Quiesce()
		c.Signal()
		Quiesce()
		a := woken
		c.Broadcast()
		Quiesce()
		return fmt.Sprint(a, woken)
	}},
	{name: "deadlock detected", allowed: []string{""}, end: "deadlock", prog: func() string {
		c := MakeChan[int](0)
		c.Send(1)
		return "x"
	}},
}

func TestConformance(t *testing.T) {
	for _, p := range micros {
		runMicro(t, p, 300)
	}
}

// ---- race detector, both directions ----

func racesOf(seeds int, prog func()) (with, total int, sample string) {
	for i := 0; i < seeds; i++ {
		res := Run(RunConfig{StepCap: 20000}, NewPRNG(3, uint64(i)), prog)
		total++
		if len(res.Races) > 0 {
			with++
			sample = res.Races[0].String()
		}
	}
	return
}

type shared struct {
	a, b  int
	flag1 bool
	flag2 bool
	m     map[int]int
	arr   [4][2]uint32
}

func TestRaceDetector(t *testing.T) {
	type tc struct {
		name string
		racy bool
		prog func()
	}
	cases := []tc{
		{"unsynchronised write/write", true, func() {
			x := &shared{}
			var wg WaitGroup
			wg.Add(2)
			for i := 0; i < 2; i++ {
				Go("w", func() { *Wr(&x.a, "w") = 1; wg.Done() })
			}
			wg.Wait()
		}},
		{"unsynchronised read/write", true, func() {
			x := &shared{}
			var wg WaitGroup
			wg.Add(2)
			Go("w", func() { *Wr(&x.a, "w") = 1; wg.Done() })
			Go("r", func() { _ = *Rd(&x.a, "r"); wg.Done() })
			wg.Wait()
		}},
		{"mutex protected", false, func() {
			x := &shared{}
			var mu Mutex
			var wg WaitGroup
			wg.Add(3)
			for i := 0; i < 3; i++ {
				Go("w", func() { mu.Lock(); *Wr(&x.a, "w")++; mu.Unlock(); wg.Done() })
			}
			wg.Wait()
			_ = *Rd(&x.a, "main")
		}},
		{"rwmutex protected", false, func() {
			x := &shared{}
			var mu RWMutex
			var wg WaitGroup
			wg.Add(4)
			for i := 0; i < 2; i++ {
				Go("w", func() { mu.Lock(); *Wr(&x.a, "w")++; mu.Unlock(); wg.Done() })
				Go("r", func() { mu.RLock(); _ = *Rd(&x.a, "r"); mu.RUnlock(); wg.Done() })
			}
			wg.Wait()
		}},
		{"reader without rlock", true, func() {
			x := &shared{}
			var mu RWMutex
			var wg WaitGroup
			wg.Add(2)
			Go("w", func() { mu.Lock(); *Wr(&x.a, "w")++; mu.Unlock(); wg.Done() })
			Go("r", func() { _ = *Rd(&x.a, "r"); wg.Done() })
			wg.Wait()
		}},
		{"channel hand-over", false, func() {
			x := &shared{}
			c := MakeChan[int](0)
			Go("w", func() { *Wr(&x.a, "w") = 1; c.Send(1) })
			c.Recv()
			_ = *Rd(&x.a, "main")
		}},
		{"buffered channel hand-over", false, func() {
			x := &shared{}
			c := MakeChan[int](1)
			Go("w", func() { *Wr(&x.a, "w") = 1; c.Send(1) })
			c.Recv()
			_ = *Rd(&x.a, "main")
		}},
		{"receive before send completes (unbuffered, reverse edge)", false, func() {
			x := &shared{}
			c := MakeChan[int](0)
			done := MakeChan[int](0)
			Go("r", func() { *Wr(&x.a, "r") = 1; c.Recv(); done.Send(1) })
			c.Send(1)
			_ = *Rd(&x.a, "main")
			done.Recv()
		}},
		{"buffered send does not order the other way", true, func() {
			x := &shared{}
			c := MakeChan[int](1)
			done := MakeChan[int](0)
			Go("r", func() { *Wr(&x.a, "r") = 1; c.Recv(); done.Send(1) })
			c.Send(1)
			_ = *Rd(&x.a, "main")
			done.Recv()
		}},
		{"close hand-over", false, func() {
			x := &shared{}
			c := MakeChan[int](0)
			Go("w", func() { *Wr(&x.a, "w") = 1; c.Close() })
			c.Recv()
			_ = *Rd(&x.a, "main")
		}},
		{"waitgroup hand-over", false, func() {
			x := &shared{}
			var wg WaitGroup
			wg.Add(1)
			Go("w", func() { *Wr(&x.a, "w") = 1; wg.Done() })
			wg.Wait()
			_ = *Rd(&x.a, "main")
		}},
		{"go statement orders parent writes", false, func() {
			x := &shared{}
			*Wr(&x.a, "main") = 1
			c := MakeChan[int](0)
			Go("r", func() { _ = *Rd(&x.a, "r"); c.Send(1) })
			c.Recv()
		}},
		{"atomic flag publishes", false, func() {
			x := &shared{}
			var f Bool
			Go("w", func() { *Wr(&x.a, "w") = 1; f.Store(true) })
			for !f.Load() {
			}
			_ = *Rd(&x.a, "main")
		}},
		{"plain after unobserved atomic", true, func() {
			x := &shared{}
			var f Bool
			done := MakeChan[int](1)
			Go("w", func() { f.Store(true); *Wr(&x.a, "w") = 1; done.Send(1) })
			_ = f.Load()
			_ = *Rd(&x.a, "main")
			done.Recv()
		}},
		{"mixed atomic and plain on one word", true, func() {
			var n uint64
			p := &n
			var wg WaitGroup
			wg.Add(2)
			Go("a", func() { AtomAdd(p, 1); wg.Done() })
			Go("p", func() { *Wr(p, "plain")++; wg.Done() })
			wg.Wait()
		}},
		{"function atomics only", false, func() {
			var n uint64
			p := &n
			var wg WaitGroup
			wg.Add(2)
			for i := 0; i < 2; i++ {
				Go("a", func() { AtomAdd(p, 1); wg.Done() })
			}
			wg.Wait()
		}},
		{"adjacent bools are distinct locations", false, func() {
			x := &shared{}
			var wg WaitGroup
			wg.Add(2)
			Go("a", func() { *Wr(&x.flag1, "f1") = true; wg.Done() })
			Go("b", func() { *Wr(&x.flag2, "f2") = true; wg.Done() })
			wg.Wait()
		}},
		{"disjoint array elements", false, func() {
			x := &shared{}
			var wg WaitGroup
			wg.Add(2)
			Go("a", func() { *Wr(&x.arr[0][1], "e01") = 1; wg.Done() })
			Go("b", func() { *Wr(&x.arr[0][0], "e00") = 1; wg.Done() })
			wg.Wait()
		}},
		{"whole element write vs part read", true, func() {
			x := &shared{}
			var wg WaitGroup
			wg.Add(2)
			Go("a", func() { *Wr(&x.arr[1], "e1") = [2]uint32{1, 2}; wg.Done() })
			Go("b", func() { _ = *Rd(&x.arr[1][1], "e11"); wg.Done() })
			wg.Wait()
		}},
		{"map is one location", true, func() {
			x := &shared{m: map[int]int{}}
			var wg WaitGroup
			wg.Add(2)
			Go("a", func() { MapWr(x.m, "mw")[1] = 1; wg.Done() })
			Go("b", func() { _ = MapRd(x.m, "mr")[2]; wg.Done() })
			wg.Wait()
		}},
		{"pool hand-over", false, func() {
			x := &shared{}
			var p Pool
			c := MakeChan[int](0)
			Go("w", func() { *Wr(&x.a, "w") = 1; p.Put(x); c.Send(1) })
			c.Recv()
			if y, _ := p.Get().(*shared); y != nil {
				_ = *Rd(&y.a, "main")
			}
		}},
		{"context cancel publishes", false, func() {
			x := &shared{}
			ctx, cancel := WithCancel(Background())
			Go("w", func() { *Wr(&x.a, "w") = 1; cancel() })
			ctx.Done().Recv()
			_ = *Rd(&x.a, "main")
		}},
		{"append into shared spare capacity", true, func() {
			base := make([]byte, 3, 64)
			var wg WaitGroup
			wg.Add(2)
			for i := 0; i < 2; i++ {
				Go("a", func() { _ = Append("a", base, '.', 'k'); wg.Done() })
			}
			wg.Wait()
		}},
		{"append into shared spare capacity vs read of it", true, func() {
			base := make([]byte, 3, 64)
			full := base[:8]
			var wg WaitGroup
			wg.Add(2)
			Go("a", func() { _ = AppendString("a", base, "abcde"); wg.Done() })
			Go("r", func() { dst := make([]byte, 8); Copy("r", dst, full); wg.Done() })
			wg.Wait()
		}},
		{"append that reallocates (clipped parent)", false, func() {
			base := make([]byte, 3, 64)[:3:3]
			var wg WaitGroup
			wg.Add(2)
			for i := 0; i < 2; i++ {
				Go("a", func() { _ = Append("a", base, '.', 'k'); wg.Done() })
			}
			wg.Wait()
		}},
		{"append under a mutex", false, func() {
			buf := make([]byte, 0, 64)
			var mu Mutex
			var wg WaitGroup
			wg.Add(3)
			for i := 0; i < 3; i++ {
				Go("a", func() { mu.Lock(); buf = AppendSlice("a", buf, []byte("xy")); mu.Unlock(); wg.Done() })
			}
			wg.Wait()
		}},
		{"pooled buffer appended to by successive owners", false, func() {
			var p Pool
			b := make([]byte, 0, 32)
			p.Put(&b)
			var wg WaitGroup
			wg.Add(2)
			for i := 0; i < 2; i++ {
				Go("a", func() {
					if q, _ := p.Get().(*[]byte); q != nil {
						*q = AppendString("a", (*q)[:0], "line")
						p.Put(q)
					}
					wg.Done()
				})
			}
			wg.Wait()
		}},
		{"copy into disjoint halves", false, func() {
			dst := make([]byte, 16)
			var wg WaitGroup
			wg.Add(2)
			Go("a", func() { CopyString("a", dst[:8], "aaaaaaaa"); wg.Done() })
			Go("b", func() { CopyString("b", dst[8:], "bbbbbbbb"); wg.Done() })
			wg.Wait()
		}},
		{"once publishes", false, func() {
			x := &shared{}
			var o Once
			var wg WaitGroup
			wg.Add(2)
			for i := 0; i < 2; i++ {
				Go("w", func() { o.Do(func() { *Wr(&x.a, "init") = 1 }); _ = *Rd(&x.a, "use"); wg.Done() })
			}
			wg.Wait()
		}},
	}
	for _, c := range cases {
		with, total, sample := racesOf(200, c.prog)
		if c.racy && with != total {
			t.Errorf("%s: race must be reported in every run where both accesses occur; reported in %d of %d", c.name, with, total)
		}
		if !c.racy && with != 0 {
			t.Errorf("%s: false race in %d of %d runs: %s", c.name, with, total, sample)
		}
	}
}

func TestDeterminism(t *testing.T) {
	prog := func() {
		c := MakeChan[int](1)
		var wg WaitGroup
		var mu Mutex
		wg.Add(3)
		for i := 0; i < 3; i++ {
			i := i
			Go("w", func() {
				defer wg.Done()
				for j := 0; j < 5; j++ {
					mu.Lock()
					mu.Unlock()
					Select("", true, SendOf(c, i), RecvOf(c))
					Sleep(time.Duration(Choose("d", 3)) * time.Millisecond)
				}
			})
		}
		wg.Wait()
	}
	for i := 0; i < 200; i++ {
		rec := &Recorder{In: NewPRNG(11, uint64(i))}
		r1 := Run(RunConfig{}, rec, prog)
		r2 := Run(RunConfig{}, NewPRNG(11, uint64(i)), prog)
		r3 := Run(RunConfig{}, NewTrace(rec.Values()), prog)
		if r1.Hash != r2.Hash || r1.Hash != r3.Hash || r1.Steps != r3.Steps {
			t.Fatalf("seed %d: hashes differ %x %x %x", i, r1.Hash, r2.Hash, r3.Hash)
		}
	}
}

func TestLeakedTasksAreUnwound(t *testing.T) {
	ran := false
	for i := 0; i < 50; i++ {
		res := Run(RunConfig{}, NewPRNG(1, uint64(i)), func() {
			c := MakeChan[int](0)
			Go("stuck", func() {
				defer func() { ran = true }()
				c.Recv()
			})
			Quiesce()
		})
		if res.End != "ok" || len(res.Leaked) != 1 {
			t.Fatalf("end=%s leaked=%v", res.End, res.Leaked)
		}
	}
	if !ran {
		t.Fatal("deferred call of an unwound task did not run")
	}
}
