package simrt

import "runtime"

func goexitNow() { runtime.Goexit() }

// Simulated channels, written from the language specification and the Go
// memory model (not from the runtime's source):
//   - unbuffered: a send and a receive complete together (rendezvous);
//   - buffered: FIFO of capacity cap; a send completes when there is room;
//   - receive from a closed, drained channel yields (zero, false);
//   - send on a closed channel panics; close of a closed or nil channel panics;
//   - nil channels are never ready;
//   - select picks among the ready cases by the chooser, default only when
//     none is ready.
//
// There are no per-channel wait queues: whether an operation can proceed is
// recomputed from the channel state and from the operations the other parked
// tasks are currently offering, so a parked select can never leave a stale
// offer behind.

type item struct {
	v  any
	vc VC
}

type chanCore struct {
	id      int
	capa    int
	buf     []item
	closed  bool
	closeVC VC
	slotVC  []VC // per buffer slot (k-th receive happens before (k+cap)-th send completes)
	sendN   int
	recvN   int
}

// Chan is a simulated `chan T` (all directions share the type).
type Chan[T any] struct{ core chanCore }

func MakeChan[T any](n int) *Chan[T] {
	if n < 0 {
		panic("makechan: size out of range")
	}
	c := &Chan[T]{}
	c.core.capa = n
	if n > 0 {
		c.core.slotVC = make([]VC, n)
	}
	return c
}

func (c *Chan[T]) corep() *chanCore {
	if c == nil {
		return nil
	}
	return &c.core
}

const (
	dirRecv = 0
	dirSend = 1
)

type scase struct {
	dir  int
	core *chanCore
	val  any
}

// Case is one communication clause of a select.
type Case interface {
	scase() scase
	setRecv(v any, ok bool)
}

type RecvCase[T any] struct {
	c  *Chan[T]
	V  T
	Ok bool
}

func RecvOf[T any](c *Chan[T]) *RecvCase[T] { return &RecvCase[T]{c: c} }
func (r *RecvCase[T]) scase() scase         { return scase{dir: dirRecv, core: r.c.corep()} }
func (r *RecvCase[T]) setRecv(v any, ok bool) {
	if v != nil {
		r.V = v.(T)
	}
	r.Ok = ok
}

type SendCase[T any] struct {
	c *Chan[T]
	v T
}

func SendOf[T any](c *Chan[T], v T) *SendCase[T] { return &SendCase[T]{c: c, v: v} }
func (r *SendCase[T]) scase() scase              { return scase{dir: dirSend, core: r.c.corep(), val: r.v} }
func (r *SendCase[T]) setRecv(v any, ok bool)    {}

// partners returns the parked tasks (and their case index) offering the
// opposite operation on core.
func (s *Sim) partners(self *Task, core *chanCore, wantDir int) (ts []*Task, idx []int) {
	for _, t := range s.tasks {
		if t == self || t.done || t.pend == nil || t.completed {
			continue
		}
		for i, c := range t.pend.cases {
			if c.core == core && c.dir == wantDir {
				ts = append(ts, t)
				idx = append(idx, i)
				break
			}
		}
	}
	return
}

func (s *Sim) caseReady(self *Task, c scase) bool {
	k := c.core
	if k == nil {
		return false
	}
	if c.dir == dirRecv {
		if len(k.buf) > 0 || k.closed {
			return true
		}
		if k.capa == 0 {
			ts, _ := s.partners(self, k, dirSend)
			return len(ts) > 0
		}
		return false
	}
	if k.closed {
		return true // will panic
	}
	if k.capa > 0 {
		return len(k.buf) < k.capa
	}
	ts, _ := s.partners(self, k, dirRecv)
	return len(ts) > 0
}

// Select performs a select statement over cases; it returns the index of the
// case that was executed, or -1 for default.
func Select(site string, hasDefault bool, cases ...Case) int {
	s := cur
	if s == nil {
		panic("simrt.Select outside a simulation")
	}
	if s.killing {
		return -1
	}
	t := s.cur
	sc := make([]scase, len(cases))
	for i, c := range cases {
		sc[i] = c.scase()
		if sc[i].core != nil {
			s.objID(&sc[i].core.id)
		}
	}
	p := &pending{kind: "select", site: site, cases: sc}
	if !hasDefault {
		p.enabled = func() bool {
			for _, c := range sc {
				if s.caseReady(t, c) {
					return true
				}
			}
			return false
		}
	}
	s.yield(p)
	if t.completed {
		// a partner performed the rendezvous for us while we were parked
		t.completed = false
		cases[t.selIdx].setRecv(t.recvVal, t.recvOk)
		t.recvVal = nil
		s.event(t, "select-done", sc[t.selIdx].core.id, site, "")
		return t.selIdx
	}
	var ready []int
	for i, c := range sc {
		if s.caseReady(t, c) {
			ready = append(ready, i)
		}
	}
	if len(ready) == 0 {
		if !hasDefault {
			panic("simrt: select scheduled with no ready case")
		}
		s.event(t, "select-default", 0, site, "")
		return -1
	}
	if len(ready) > 1 {
		Probe("select.multi_ready")
	}
	i := ready[s.ch.Choose("select", len(ready))]
	c := sc[i]
	if c.dir == dirRecv {
		v, ok := s.doRecv(t, c.core, site)
		cases[i].setRecv(v, ok)
	} else {
		s.doSend(t, c.core, c.val, site)
	}
	return i
}

func (s *Sim) doRecv(t *Task, k *chanCore, site string) (any, bool) {
	if len(k.buf) > 0 {
		it := k.buf[0]
		k.buf = k.buf[1:]
		if !s.cfg.NoRace {
			t.vc.join(it.vc)
			slot := k.recvN % k.capa
			k.slotVC[slot] = t.vc.clone()
			t.vc.tick(t.id)
		}
		k.recvN++
		s.event(t, "recv", k.id, site, "")
		t.opSeq = s.seq
		return it.v, true
	}
	if k.closed {
		if !s.cfg.NoRace {
			t.vc.join(k.closeVC)
		}
		s.event(t, "recv-closed", k.id, site, "")
		t.opSeq = s.seq
		return nil, false
	}
	ts, idx := s.partners(t, k, dirSend)
	if len(ts) == 0 {
		panic("simrt: recv scheduled with no partner")
	}
	j := s.ch.Choose("partner", len(ts))
	p := ts[j]
	v := p.pend.cases[idx[j]].val
	s.completePartner(t, p, idx[j], nil, false)
	s.event(t, "recv-rdv", k.id, site, "")
	t.opSeq, p.opSeq = s.seq, s.seq
	return v, true
}

func (s *Sim) doSend(t *Task, k *chanCore, v any, site string) {
	if k.closed {
		s.event(t, "send-closed", k.id, site, "")
		panic(runtimeError("send on closed channel"))
	}
	if k.capa > 0 {
		it := item{v: v}
		if !s.cfg.NoRace {
			slot := k.sendN % k.capa
			t.vc.join(k.slotVC[slot])
			it.vc = t.vc.clone()
			t.vc.tick(t.id)
		}
		k.sendN++
		k.buf = append(k.buf, it)
		s.event(t, "send", k.id, site, "")
		t.opSeq = s.seq
		return
	}
	ts, idx := s.partners(t, k, dirRecv)
	if len(ts) == 0 {
		panic("simrt: send scheduled with no partner")
	}
	j := s.ch.Choose("partner", len(ts))
	s.completePartner(t, ts[j], idx[j], v, true)
	s.event(t, "send-rdv", k.id, site, "")
	t.opSeq, ts[j].opSeq = s.seq, s.seq
}

// completePartner finishes the parked task p's operation (case index i) as
// the other half of a rendezvous performed by t.
func (s *Sim) completePartner(t, p *Task, i int, v any, ok bool) {
	p.completed = true
	p.selIdx = i
	p.recvVal = v
	p.recvOk = ok
	p.pend = nil
	if !s.cfg.NoRace {
		// both directions synchronise on an unbuffered channel
		t.vc.join(p.vc)
		p.vc.join(t.vc)
		t.vc.tick(t.id)
		p.vc.tick(p.id)
	}
}

type runtimeError string

func (e runtimeError) Error() string { return string(e) }
func (e runtimeError) RuntimeError() {}

// Send is `c <- v`.
func (c *Chan[T]) Send(v T) { c.SendAt("", v) }

func (c *Chan[T]) SendAt(site string, v T) {
	Select(site, false, SendOf(c, v))
}

// Recv is `<-c`.
func (c *Chan[T]) Recv() T { v, _ := c.Recv2At(""); return v }

func (c *Chan[T]) RecvAt(site string) T { v, _ := c.Recv2At(site); return v }

// Recv2 is `v, ok := <-c`.
func (c *Chan[T]) Recv2() (T, bool) { return c.Recv2At("") }

func (c *Chan[T]) Recv2At(site string) (T, bool) {
	r := RecvOf(c)
	Select(site, false, r)
	return r.V, r.Ok
}

// TrySend / TryRecv are select-with-default over one case (harness use).
func (c *Chan[T]) TrySend(v T) bool { return Select("", true, SendOf(c, v)) == 0 }

func (c *Chan[T]) TryRecv() (T, bool, bool) {
	r := RecvOf(c)
	i := Select("", true, r)
	return r.V, r.Ok, i == 0
}

// Len is len(c). It is a schedule point: what len() saw may be stale by the
// time the caller acts on it, and the simulator must be able to put other
// tasks' steps in between.
func (c *Chan[T]) Len() int {
	if c == nil {
		return 0
	}
	if s := cur; s != nil && !s.killing {
		s.yield(&pending{kind: "chan.len"})
	}
	return len(c.core.buf)
}

func (c *Chan[T]) Cap() int {
	if c == nil {
		return 0
	}
	return c.core.capa
}

// Close is close(c).
func (c *Chan[T]) Close() { c.CloseAt("") }

func (c *Chan[T]) CloseAt(site string) {
	s := cur
	if s != nil && s.killing {
		return
	}
	if c == nil {
		panic(runtimeError("close of nil channel"))
	}
	if s == nil {
		if c.core.closed {
			panic(runtimeError("close of closed channel"))
		}
		c.core.closed = true
		return
	}
	s.objID(&c.core.id)
	s.yield(&pending{kind: "close", site: site, obj: c.core.id})
	s.closeCore(&c.core, site)
}

func (s *Sim) closeCore(k *chanCore, site string) {
	if k.closed {
		panic(runtimeError("close of closed channel"))
	}
	k.closed = true
	if !s.cfg.NoRace && s.cur != nil {
		k.closeVC = s.cur.vc.clone()
		s.cur.vc.tick(s.cur.id)
	}
	s.event(s.cur, "close", k.id, site, "")
}

// Closed reports whether the channel has been closed (harness use only).
func (c *Chan[T]) Closed() bool { return c != nil && c.core.closed }
