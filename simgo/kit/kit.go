// Package kit is the common frame of a world binary: it turns run indices into
// choosers, runs the world's simulation, collects coverage statistics, and
// implements replay and minimisation of failing runs.
package kit

import (
	"strconv"
	"encoding/binary"
	"encoding/json"
	"flag"
	"fmt"
	"os"
	"sort"
	"time"

	"simgo/simrt"
)

// Violation of one property found by a world's oracle in one run.
type Violation struct {
	Prop   string `json:"property"`
	Class  string `json:"class"`
	Detail string `json:"detail"`
	Sig    string `json:"signature"` // what known_findings.json matches on
	Seq    uint64 `json:"at_seq"`
}

// Outcome of one simulated run.
type Outcome struct {
	Res    *simrt.Result
	Viol   []Violation
	Sample any    // API-level description of the run (for evidence samples)
	// NonTrivial lets a world without concurrency state its own rule
	// (Res.NonTrivial is about schedules).
	NonTrivial bool
	Infra      string // non-empty: the run is unusable (simulator trouble), never a violation
}

type World struct {
	Name string
	// Run performs one run. prop is the property being checked (worlds may
	// bias nothing on it; it is used for filtering).
	Run func(ch simrt.Chooser, prop string, keep bool) *Outcome
	// Enum, if set, lists choice lists that are run first (run index i <
	// len(list) replays list[i]): the exhaustively enumerated part of a check.
	Enum func(prop string) [][]int
}

// ReplayFile is the artefact written for a violation.
type ReplayFile struct {
	Property  string         `json:"property"`
	World     string         `json:"world"`
	Seed      uint64         `json:"seed"`
	Run       uint64         `json:"run"`
	Choices   []simrt.Choice `json:"choices"`
	Violation Violation      `json:"violation"`
	LogHash   string         `json:"log_hash"`
	Steps     int            `json:"steps"`
	Minimised bool           `json:"minimised"`
	Original  int            `json:"original_choices,omitempty"`
	Tree      string         `json:"tree,omitempty"`
	Events    []simrt.Event  `json:"events,omitempty"`
	Sample    any            `json:"history,omitempty"`
	// Rarity the run was made under (see Rarity); a replay uses the same
	Rarity int `json:"rarity,omitempty"`
}

var rarity = 1

// Rarity is a factor by which a world divides the probability of its most
// expensive rare scenarios (a world multiplies the arity of those draws by it).
// It is 1 in the quick tier; the thorough tier, with a hundred times the runs,
// raises it (environment variable SIM_RARITY) so that the number of such runs,
// not their share, grows. It is recorded in every replay file and taken from
// there on replay, so that a choice list keeps its meaning.
func Rarity() int { return rarity }

// Stats is what a worker process reports for its block of runs.
type Stats struct {
	World        string         `json:"world"`
	Prop         string         `json:"prop"`
	Seed         uint64         `json:"seed"`
	From, To     uint64         `json:"-"`
	Runs         int            `json:"runs"`
	Steps        int64          `json:"steps"`
	SimTimeNs    int64          `json:"sim_time_ns"`
	NonTrivial   int            `json:"nontrivial"`
	Switches     int64          `json:"switches"`
	Preempts     int64          `json:"preempts"`
	MaxSteps     int            `json:"max_steps"`
	Faults       map[string]int `json:"faults"`
	Probes       map[string]int `json:"probes"`
	Ends         map[string]int `json:"ends"`
	Samples      []any          `json:"samples"`
	Failing      []ReplayFile   `json:"failing"`
	Infra        []string       `json:"infra"`
	WallS        float64        `json:"wall_s"`
	HashFile     string         `json:"hash_file"`
	ReplayChecks int            `json:"replay_selfchecks"`
	Enumerated   int            `json:"enumerated"`
	Extra        map[string]int `json:"extra,omitempty"`
}

func filter(vs []Violation, prop string) []Violation {
	var out []Violation
	for _, v := range vs {
		if v.Prop == prop {
			out = append(out, v)
		}
	}
	return out
}

// Main is the entry point of a world binary.
func Main(w World) {
	var (
		prop     = flag.String("prop", "", "property id")
		seed     = flag.Uint64("seed", 1, "seed base")
		from     = flag.Uint64("from", 0, "first run index")
		to       = flag.Uint64("to", 100, "one past the last run index")
		out      = flag.String("out", "", "stats file")
		replay   = flag.String("replay", "", "replay file to re-execute")
		minimise = flag.String("minimise", "", "replay file to minimise in place")
		budget   = flag.Duration("budget", 0, "wall-clock budget for this block (0 = none)")
		maxFail  = flag.Int("maxfail", 8, "distinct failing signatures to keep")
		enumSize = flag.Bool("enumsize", false, "print the size of the enumerated part and exit")
	)
	flag.Parse()
	if v, err := strconv.Atoi(os.Getenv("SIM_RARITY")); err == nil && v > 1 {
		rarity = v
	}
	var enum [][]int
	if w.Enum != nil && *replay == "" && *minimise == "" {
		enum = w.Enum(*prop)
	}
	if *enumSize {
		fmt.Println(len(enum))
		return
	}
	switch {
	case *replay != "":
		os.Exit(doReplay(w, *replay, *prop))
	case *minimise != "":
		os.Exit(doMinimise(w, *minimise))
	}
	st := &Stats{World: w.Name, Prop: *prop, Seed: *seed, From: *from, To: *to,
		Faults: map[string]int{}, Probes: map[string]int{}, Ends: map[string]int{}}
	start := time.Now()
	hashes := map[uint64]struct{}{}
	nt := map[uint64]struct{}{}
	shapes := map[uint64]struct{}{}
	seenSig := map[string]bool{}
	for run := *from; run < *to; run++ {
		if *budget > 0 && time.Since(start) > *budget {
			break
		}
		var in simrt.Chooser = simrt.NewPRNG(*seed, run)
		if run < uint64(len(enum)) {
			in = simrt.NewTrace(enum[run])
			st.Enumerated++
		}
		rec := &simrt.Recorder{In: in}
		o := w.Run(rec, *prop, false)
		st.Runs++
		r := o.Res
		st.Steps += int64(r.Steps)
		st.SimTimeNs += r.SimTime
		st.Switches += int64(r.Switches)
		st.Preempts += int64(r.Preempts)
		if r.Steps > st.MaxSteps {
			st.MaxSteps = r.Steps
		}
		st.Ends[r.End]++
		for k, v := range r.Faults {
			st.Faults[k] += v
		}
		for k, v := range r.Probes {
			st.Probes[k] += v
		}
		if r.NonTrivial || o.NonTrivial {
			nt[r.Hash] = struct{}{}
		}
		hashes[r.Hash] = struct{}{}
		shapes[r.ShapeHash] = struct{}{}
		if o.Infra != "" {
			if len(st.Infra) < 5 {
				st.Infra = append(st.Infra, fmt.Sprintf("seed=%d run=%d: %s", *seed, run, o.Infra))
			}
			continue
		}
		// replay self-check on a sample of runs: the recorded choices must
		// reproduce the same history
		if run%97 == 0 {
			o2 := w.Run(simrt.NewTrace(rec.Values()), *prop, false)
			st.ReplayChecks++
			if o2.Res.Hash != r.Hash || o2.Res.Steps != r.Steps {
				st.Infra = append(st.Infra, fmt.Sprintf("seed=%d run=%d: replay of recorded choices diverged (hash %x vs %x)", *seed, run, r.Hash, o2.Res.Hash))
			}
		}
		for _, v := range filter(o.Viol, *prop) {
			sig := v.Class + " " + v.Sig
			if seenSig[sig] || len(st.Failing) >= *maxFail {
				continue
			}
			seenSig[sig] = true
			st.Failing = append(st.Failing, ReplayFile{Property: *prop, World: w.Name, Seed: *seed, Run: run,
				Choices: rec.Log, Violation: v, LogHash: fmt.Sprintf("%016x", r.Hash), Steps: r.Steps, Rarity: rarity})
		}
		if len(st.Samples) < 2 && o.Sample != nil && (r.NonTrivial || o.NonTrivial) && run%7 == 3 {
			st.Samples = append(st.Samples, o.Sample)
		}
	}
	st.WallS = time.Since(start).Seconds()
	st.NonTrivial = len(nt)
	if *out != "" {
		// hashes go to a side file so that the driver can count distinct
		// interleavings over all workers
		hf := *out + ".hashes"
		buf := make([]byte, 0, 8*(len(hashes)+len(shapes))+16)
		buf = binary.LittleEndian.AppendUint64(buf, uint64(len(hashes)))
		for h := range hashes {
			buf = binary.LittleEndian.AppendUint64(buf, h)
		}
		buf = binary.LittleEndian.AppendUint64(buf, uint64(len(shapes)))
		for h := range shapes {
			buf = binary.LittleEndian.AppendUint64(buf, h)
		}
		buf = binary.LittleEndian.AppendUint64(buf, uint64(len(nt)))
		for h := range nt {
			buf = binary.LittleEndian.AppendUint64(buf, h)
		}
		if err := os.WriteFile(hf, buf, 0644); err != nil {
			fmt.Fprintln(os.Stderr, err)
			os.Exit(2)
		}
		st.HashFile = hf
		b, _ := json.Marshal(st)
		if err := os.WriteFile(*out, b, 0644); err != nil {
			fmt.Fprintln(os.Stderr, err)
			os.Exit(2)
		}
	} else {
		b, _ := json.MarshalIndent(st, "", " ")
		fmt.Println(string(b))
	}
}

func values(cs []simrt.Choice) []int {
	v := make([]int, len(cs))
	for i, c := range cs {
		v[i] = c.V
	}
	return v
}

func loadReplay(path string) (*ReplayFile, error) {
	b, err := os.ReadFile(path)
	if err != nil {
		return nil, err
	}
	var rf ReplayFile
	if err := json.Unmarshal(b, &rf); err != nil {
		return nil, err
	}
	if rf.Rarity > 0 {
		rarity = rf.Rarity
	}
	return &rf, nil
}

// doReplay: exit 1 if the recorded violation reproduces (same property, same
// class), 0 if the run is clean, 2 on trouble. Prints what it saw.
func doReplay(w World, path, prop string) int {
	rf, err := loadReplay(path)
	if err != nil {
		fmt.Fprintln(os.Stderr, "replay:", err)
		return 2
	}
	if prop == "" {
		prop = rf.Property
	}
	o := w.Run(simrt.NewTrace(values(rf.Choices)), prop, true)
	if o.Infra != "" {
		fmt.Println("REPLAY infra:", o.Infra)
		return 2
	}
	hash := fmt.Sprintf("%016x", o.Res.Hash)
	vs := filter(o.Viol, prop)
	fmt.Printf("REPLAY world=%s property=%s steps=%d log_hash=%s recorded_hash=%s violations=%d\n", w.Name, prop, o.Res.Steps, hash, rf.LogHash, len(vs))
	for _, v := range vs {
		fmt.Printf("  class=%s sig=%s detail=%s\n", v.Class, v.Sig, v.Detail)
	}
	for _, v := range vs {
		if v.Class == rf.Violation.Class && v.Sig == rf.Violation.Sig {
			if hash != rf.LogHash {
				fmt.Println("REPLAY reproduced the violation class but the history hash differs")
				return 3
			}
			fmt.Println("REPLAY reproduced: VIOLATION property=" + prop + " class=" + v.Class)
			return 1
		}
	}
	return 0
}

// doMinimise shrinks the choice list of a replay file while the same violation
// class of the same property persists: delete chunks, zero chunks, lower
// single values; fixpoint or budget.
func doMinimise(w World, path string) int {
	rf, err := loadReplay(path)
	if err != nil {
		fmt.Fprintln(os.Stderr, "minimise:", err)
		return 2
	}
	prop, class, sig := rf.Property, rf.Violation.Class, rf.Violation.Sig
	tries := 0
	deadline := time.Now().Add(90 * time.Second)
	fails := func(vals []int) bool {
		tries++
		o := w.Run(simrt.NewTrace(vals), prop, false)
		if o.Infra != "" {
			return false
		}
		for _, v := range filter(o.Viol, prop) {
			if v.Class == class && v.Sig == sig {
				return true
			}
		}
		return false
	}
	cur := values(rf.Choices)
	if !fails(cur) {
		fmt.Println("MINIMISE: recorded choices do not reproduce")
		return 2
	}
	orig := len(cur)
	budgetOK := func() bool { return tries < 3000 && time.Now().Before(deadline) }
	for changed := true; changed && budgetOK(); {
		changed = false
		// 1. delete chunks
		for size := len(cur) / 2; size >= 1 && budgetOK(); size /= 2 {
			for i := 0; i+size <= len(cur) && budgetOK(); {
				cand := append(append([]int{}, cur[:i]...), cur[i+size:]...)
				if fails(cand) {
					cur = cand
					changed = true
				} else {
					i += size
				}
			}
		}
		// 2. zero chunks
		for size := len(cur) / 2; size >= 1 && budgetOK(); size /= 2 {
			for i := 0; i+size <= len(cur) && budgetOK(); i += size {
				allZero := true
				for _, v := range cur[i : i+size] {
					if v != 0 {
						allZero = false
					}
				}
				if allZero {
					continue
				}
				cand := append([]int{}, cur...)
				for j := i; j < i+size; j++ {
					cand[j] = 0
				}
				if fails(cand) {
					cur = cand
					changed = true
				}
			}
		}
		// 3. lower single values
		for i := 0; i < len(cur) && budgetOK(); i++ {
			for cur[i] > 0 && budgetOK() {
				cand := append([]int{}, cur...)
				cand[i] = cur[i] / 2
				if fails(cand) {
					cur = cand
					changed = true
				} else {
					cand[i] = cur[i] - 1
					if cand[i] != cur[i]/2 && fails(cand) {
						cur = cand
						changed = true
					} else {
						break
					}
				}
			}
		}
		// drop trailing zeros (they read as 0 anyway)
		for len(cur) > 0 && cur[len(cur)-1] == 0 {
			cur = cur[:len(cur)-1]
		}
	}
	// final recorded run with the event log
	rec := &simrt.Recorder{In: simrt.NewTrace(cur)}
	o := w.Run(rec, prop, true)
	var viol *Violation
	for _, v := range filter(o.Viol, prop) {
		if v.Class == class && v.Sig == sig {
			vv := v
			viol = &vv
			break
		}
	}
	if viol == nil {
		fmt.Println("MINIMISE: minimised list does not reproduce")
		return 2
	}
	rf.Choices = rec.Log
	rf.Violation = *viol
	rf.LogHash = fmt.Sprintf("%016x", o.Res.Hash)
	rf.Steps = o.Res.Steps
	rf.Minimised = true
	rf.Original = orig
	ev := o.Res.Events
	if len(ev) > 400 {
		ev = ev[len(ev)-400:]
	}
	rf.Events = ev
	rf.Sample = o.Sample
	b, _ := json.MarshalIndent(rf, "", " ")
	if err := os.WriteFile(path, b, 0644); err != nil {
		fmt.Fprintln(os.Stderr, err)
		return 2
	}
	fmt.Printf("MINIMISE: %d -> %d choices in %d replays\n", orig, len(rf.Choices), tries)
	return 0
}

// SortedKeys is a small helper for deterministic iteration in worlds.
func SortedKeys[V any](m map[string]V) []string {
	ks := make([]string, 0, len(m))
	for k := range m {
		ks = append(ks, k)
	}
	sort.Strings(ks)
	return ks
}
