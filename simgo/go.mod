module simgo

go 1.22
