// Package rewrite turns ordinary Go source into source that runs on simrt:
// channel/select/go syntax becomes calls on simulated objects, imports of
// sync, sync/atomic, time, context, crypto/rand (and os, for one file) are
// redirected to shim packages with the same identifiers, and shared-memory
// accesses (struct fields, elements reached through them, mutable package
// variables, maps) are wrapped in place with simrt.Rd / simrt.Wr so that they
// are pre-emption points and feed the happens-before race detector.
//
// The rewrite is type-directed (go/types with the source importer) and is
// applied to a scratch copy of the repository, never to /repo.
package rewrite

import (
	"bytes"
	"fmt"
	"go/ast"
	"go/build"
	"go/importer"
	"go/parser"
	"go/printer"
	"go/token"
	"go/types"
	"os"
	"path/filepath"
	"strconv"
	"strings"
)

const rtName = "__simrt"
const rtPath = "simgo/simrt"

// PkgConfig says how one package directory is rewritten.
type PkgConfig struct {
	Dir     string            // relative to the module root, e.g. "tasklane"
	Shims   map[string]string // import path -> shim import path
	Exclude []string          // file names copied verbatim
	// FileShims adds shims for single files (file name -> import path -> shim).
	FileShims map[string]map[string]string
	NoInstr   bool // no Rd/Wr instrumentation
}

// Package rewrites the package in place under root. modPath is the module
// path of root (for nothing but messages).
func Package(root string, cfg PkgConfig) error {
	dir := filepath.Join(root, cfg.Dir)
	ctx := build.Default
	ctx.Dir = root
	bp, err := ctx.ImportDir(dir, 0)
	if err != nil {
		return fmt.Errorf("rewrite %s: %v", cfg.Dir, err)
	}
	fset := token.NewFileSet()
	var files []*ast.File
	var names []string
	for _, name := range bp.GoFiles {
		f, err := parser.ParseFile(fset, filepath.Join(dir, name), nil, parser.ParseComments)
		if err != nil {
			return err
		}
		files = append(files, f)
		names = append(names, name)
	}
	info := &types.Info{
		Types:      map[ast.Expr]types.TypeAndValue{},
		Defs:       map[*ast.Ident]types.Object{},
		Uses:       map[*ast.Ident]types.Object{},
		Selections: map[*ast.SelectorExpr]*types.Selection{},
		Instances:  map[*ast.Ident]types.Instance{},
	}
	old, _ := os.Getwd()
	os.Chdir(root)
	defer os.Chdir(old)
	conf := types.Config{Importer: importer.ForCompiler(fset, "source", nil), Error: func(error) {}}
	pkg, err := conf.Check(bp.ImportPath, fset, files, info)
	if err != nil {
		return fmt.Errorf("rewrite %s: type check: %v", cfg.Dir, err)
	}
	mut := mutatedGlobals(files, info, pkg)
	excl := map[string]bool{}
	for _, e := range cfg.Exclude {
		excl[e] = true
	}
	pi := &pkgInit{funcs: map[string]string{}}
	for i, f := range files {
		if excl[names[i]] {
			continue
		}
		shims := map[string]string{}
		for k, v := range cfg.Shims {
			shims[k] = v
		}
		for k, v := range cfg.FileShims[names[i]] {
			shims[k] = v
		}
		r := &rw{fset: fset, info: info, pkg: pkg, file: f, relDir: cfg.Dir, name: names[i], mut: mut, shims: shims, instr: !cfg.NoInstr, pi: pi}
		src, err := r.rewriteFile()
		if err != nil {
			return fmt.Errorf("rewrite %s/%s: %v", cfg.Dir, names[i], err)
		}
		if err := os.WriteFile(filepath.Join(dir, names[i]), src, 0644); err != nil {
			return err
		}
	}
	// the package's reset function: zero the variables without initialiser,
	// then re-run the initialisers in the order the compiler would, then the
	// init functions
	var calls []string
	calls = append(calls, pi.zero...)
	for _, in := range info.InitOrder {
		for _, v := range in.Lhs {
			if fn, ok := pi.funcs[v.Name()]; ok {
				calls = append(calls, fn)
				break
			}
		}
	}
	calls = append(calls, pi.inits...)
	var b bytes.Buffer
	fmt.Fprintf(&b, "package %s\n\nimport %s %q\n\nfunc init() {\n\t%s.RegisterReset(%q, func() {\n", pkg.Name(), rtName, rtPath, rtName, bp.ImportPath)
	for _, c := range calls {
		fmt.Fprintf(&b, "\t\t%s()\n", c)
	}
	fmt.Fprintf(&b, "\t})\n}\n")
	return os.WriteFile(filepath.Join(dir, "zz_simrt_reset.go"), b.Bytes(), 0644)
}

// pkgInit collects, over the files of a package, the generated functions that
// re-initialise its package-level variables.
type pkgInit struct {
	funcs map[string]string // variable name -> function that re-runs its initialiser
	zero  []string          // functions zeroing variables declared without initialiser
	inits []string          // renamed init functions
}

// mutatedGlobals finds package-level variables that are ever assigned,
// address-taken, incremented or used as a method receiver outside their
// declaration. Only those are instrumented; the rest are effectively constant
// tables (safeSet, labelList, methodTagMap, …).
func mutatedGlobals(files []*ast.File, info *types.Info, pkg *types.Package) map[types.Object]bool {
	mut := map[types.Object]bool{}
	var root func(e ast.Expr) *ast.Ident
	root = func(e ast.Expr) *ast.Ident {
		switch e := e.(type) {
		case *ast.Ident:
			return e
		case *ast.ParenExpr:
			return root(e.X)
		case *ast.IndexExpr:
			return root(e.X)
		case *ast.SelectorExpr:
			if _, ok := info.Selections[e]; ok {
				return root(e.X)
			}
		case *ast.StarExpr:
			return root(e.X)
		case *ast.SliceExpr:
			return root(e.X)
		}
		return nil
	}
	mark := func(e ast.Expr) {
		if id := root(e); id != nil {
			if v, ok := info.Uses[id].(*types.Var); ok && v.Parent() == pkg.Scope() {
				mut[v] = true
			}
		}
	}
	for _, f := range files {
		ast.Inspect(f, func(n ast.Node) bool {
			switch n := n.(type) {
			case *ast.AssignStmt:
				if n.Tok != token.DEFINE {
					for _, l := range n.Lhs {
						mark(l)
					}
				}
			case *ast.IncDecStmt:
				mark(n.X)
			case *ast.UnaryExpr:
				if n.Op == token.AND {
					mark(n.X)
				}
			case *ast.RangeStmt:
				if n.Tok == token.ASSIGN {
					if n.Key != nil {
						mark(n.Key)
					}
					if n.Value != nil {
						mark(n.Value)
					}
				}
			case *ast.CallExpr:
				if sel, ok := n.Fun.(*ast.SelectorExpr); ok {
					if s, ok := info.Selections[sel]; ok && s.Kind() == types.MethodVal {
						mark(sel.X)
					}
				}
				if id, ok := n.Fun.(*ast.Ident); ok && (id.Name == "delete" || id.Name == "clear") && len(n.Args) > 0 {
					if _, isBuiltin := info.Uses[id].(*types.Builtin); isBuiltin {
						mark(n.Args[0])
					}
				}
			}
			return true
		})
	}
	return mut
}

type rw struct {
	fset   *token.FileSet
	info   *types.Info
	pkg    *types.Package
	file   *ast.File
	relDir string
	name   string
	mut    map[types.Object]bool
	shims  map[string]string
	instr  bool
	tmp    int
	// locals that may be shared: address taken, or captured by a closure
	sharedLocal map[types.Object]bool
	params      map[types.Object]bool
	pi          *pkgInit
}

type ectx int

const (
	cRead  ectx = iota
	cWrite      // being assigned / incremented
	cAddr       // operand of &, or base of an array index: not wrapped itself
)

func (r *rw) site(n ast.Node) ast.Expr {
	p := r.fset.Position(n.Pos())
	return &ast.BasicLit{Kind: token.STRING, Value: strconv.Quote(fmt.Sprintf("%s/%s:%d", r.relDir, r.name, p.Line))}
}

func rt(name string) ast.Expr {
	return &ast.SelectorExpr{X: ast.NewIdent(rtName), Sel: ast.NewIdent(name)}
}

func call(fun ast.Expr, args ...ast.Expr) *ast.CallExpr {
	return &ast.CallExpr{Fun: fun, Args: args}
}

func method(x ast.Expr, name string, args ...ast.Expr) *ast.CallExpr {
	return call(&ast.SelectorExpr{X: x, Sel: ast.NewIdent(name)}, args...)
}

func (r *rw) newTmp(prefix string) *ast.Ident {
	r.tmp++
	return ast.NewIdent(fmt.Sprintf("__%s%d", prefix, r.tmp))
}

// findSharedLocals marks local variables (and parameters) whose address is
// taken or that are referenced from a function literal declared after them:
// those can be reached by another goroutine, so their accesses are
// instrumented like struct fields. It also collects parameters, whose
// dereferences are not instrumented (helpers like appendX(buf *[]byte, ...)
// would otherwise dominate the cost).
func (r *rw) findSharedLocals() {
	r.sharedLocal = map[types.Object]bool{}
	r.params = map[types.Object]bool{}
	local := func(id *ast.Ident) types.Object {
		o := r.info.Uses[id]
		if o == nil {
			o = r.info.Defs[id]
		}
		v, ok := o.(*types.Var)
		if !ok || v.IsField() || v.Parent() == r.pkg.Scope() || v.Pkg() != r.pkg {
			return nil
		}
		return v
	}
	var addrRoot func(e ast.Expr) *ast.Ident
	addrRoot = func(e ast.Expr) *ast.Ident {
		switch e := e.(type) {
		case *ast.Ident:
			return e
		case *ast.ParenExpr:
			return addrRoot(e.X)
		case *ast.SelectorExpr:
			if sel, ok := r.info.Selections[e]; ok && sel.Kind() == types.FieldVal && !sel.Indirect() {
				if _, isPtr := r.typeOf(e.X).Underlying().(*types.Pointer); !isPtr {
					return addrRoot(e.X)
				}
			}
		case *ast.IndexExpr:
			if t := r.typeOf(e.X); t != nil {
				if _, isArr := t.Underlying().(*types.Array); isArr {
					return addrRoot(e.X)
				}
			}
		}
		return nil
	}
	fieldParams := func(fl *ast.FieldList) {
		if fl == nil {
			return
		}
		for _, f := range fl.List {
			for _, n := range f.Names {
				if o := r.info.Defs[n]; o != nil {
					r.params[o] = true
				}
			}
		}
	}
	ast.Inspect(r.file, func(n ast.Node) bool {
		switch n := n.(type) {
		case *ast.FuncDecl:
			fieldParams(n.Recv)
			fieldParams(n.Type.Params)
			fieldParams(n.Type.Results)
		case *ast.UnaryExpr:
			if n.Op == token.AND {
				if id := addrRoot(n.X); id != nil {
					if o := local(id); o != nil {
						r.sharedLocal[o] = true
					}
				}
			}
		case *ast.FuncLit:
			fieldParams(n.Type.Params)
			fieldParams(n.Type.Results)
			ast.Inspect(n.Body, func(m ast.Node) bool {
				if id, ok := m.(*ast.Ident); ok {
					if o := local(id); o != nil && (o.Pos() < n.Pos() || o.Pos() > n.End()) {
						r.sharedLocal[o] = true
					}
				}
				return true
			})
		}
		return true
	})
}

func (r *rw) rewriteFile() ([]byte, error) {
	f := r.file
	r.findSharedLocals()
	// build constraints survive; all other comments are dropped
	var header []string
	for _, cg := range f.Comments {
		if cg.Pos() > f.Package {
			break
		}
		for _, c := range cg.List {
			if strings.HasPrefix(c.Text, "//go:build") || strings.HasPrefix(c.Text, "// +build") {
				header = append(header, c.Text)
			}
		}
	}
	f.Comments = nil
	f.Doc = nil
	// imports
	for _, d := range f.Decls {
		gd, ok := d.(*ast.GenDecl)
		if !ok || gd.Tok != token.IMPORT {
			continue
		}
		for _, sp := range gd.Specs {
			is := sp.(*ast.ImportSpec)
			is.Doc, is.Comment = nil, nil
			p, _ := strconv.Unquote(is.Path.Value)
			if shim, ok := r.shims[p]; ok {
				if is.Name == nil {
					is.Name = ast.NewIdent(p[strings.LastIndex(p, "/")+1:])
				}
				is.Path = &ast.BasicLit{Kind: token.STRING, Value: strconv.Quote(shim)}
				is.EndPos = 0
			}
		}
	}
	for _, d := range f.Decls {
		r.decl(d)
	}
	f.Decls = append(f.Decls, r.reinitDecls()...)
	// add the runtime import and keep it used
	imp := &ast.GenDecl{Tok: token.IMPORT, Specs: []ast.Spec{&ast.ImportSpec{Name: ast.NewIdent(rtName), Path: &ast.BasicLit{Kind: token.STRING, Value: strconv.Quote(rtPath)}}}}
	keep := &ast.GenDecl{Tok: token.VAR, Specs: []ast.Spec{&ast.ValueSpec{Names: []*ast.Ident{ast.NewIdent("_")}, Values: []ast.Expr{rt("Keep")}}}}
	f.Decls = append([]ast.Decl{imp}, append(f.Decls, keep)...)
	var buf bytes.Buffer
	for _, h := range header {
		buf.WriteString(h + "\n")
	}
	if len(header) > 0 {
		buf.WriteString("\n")
	}
	if err := (&printer.Config{Mode: printer.UseSpaces | printer.TabIndent, Tabwidth: 8}).Fprint(&buf, token.NewFileSet(), stripPos(f)); err != nil {
		return nil, err
	}
	return buf.Bytes(), nil
}

// stripPos: printing with a fresh FileSet makes the printer ignore the stale
// positions of the original nodes (which no longer describe the tree).
func stripPos(f *ast.File) *ast.File { return f }

// reinitDecls generates, for every package-level variable of this file, a
// function that assigns it its initial value again, and wraps init functions
// so that they can be re-run.
func (r *rw) reinitDecls() []ast.Decl {
	var out []ast.Decl
	if r.pi == nil {
		return nil
	}
	mk := func(name string, body ...ast.Stmt) {
		out = append(out, &ast.FuncDecl{Name: ast.NewIdent(name), Type: &ast.FuncType{Params: &ast.FieldList{}}, Body: &ast.BlockStmt{List: body}})
	}
	base := strings.NewReplacer(".", "_", "-", "_").Replace(strings.TrimSuffix(r.name, ".go"))
	nInit := 0
	for _, d := range r.file.Decls {
		switch d := d.(type) {
		case *ast.GenDecl:
			if d.Tok != token.VAR {
				continue
			}
			for _, sp := range d.Specs {
				vs := sp.(*ast.ValueSpec)
				switch {
				case len(vs.Values) == 0:
					for _, n := range vs.Names {
						if n.Name == "_" {
							continue
						}
						fn := "__simrtInit_" + n.Name
						z := ast.NewIdent("__z")
						mk(fn,
							&ast.DeclStmt{Decl: &ast.GenDecl{Tok: token.VAR, Specs: []ast.Spec{&ast.ValueSpec{Names: []*ast.Ident{z}, Type: vs.Type}}}},
							&ast.AssignStmt{Lhs: []ast.Expr{ast.NewIdent(n.Name)}, Tok: token.ASSIGN, Rhs: []ast.Expr{z}})
						r.pi.zero = append(r.pi.zero, fn)
					}
				case len(vs.Values) == len(vs.Names):
					for i, n := range vs.Names {
						if n.Name == "_" {
							continue
						}
						fn := "__simrtInit_" + n.Name
						rhs := vs.Values[i]
						if vs.Type != nil {
							rhs = call(&ast.ParenExpr{X: vs.Type}, rhs) // keep the declared type (untyped constants, interfaces)
							if _, isArr := vs.Type.(*ast.ArrayType); isArr {
								rhs = vs.Values[i]
							}
						}
						mk(fn, &ast.AssignStmt{Lhs: []ast.Expr{ast.NewIdent(n.Name)}, Tok: token.ASSIGN, Rhs: []ast.Expr{rhs}})
						r.pi.funcs[n.Name] = fn
					}
				default: // var a, b = f()
					var lhs []ast.Expr
					first := ""
					for _, n := range vs.Names {
						lhs = append(lhs, ast.NewIdent(n.Name))
						if first == "" && n.Name != "_" {
							first = n.Name
						}
					}
					if first == "" {
						continue
					}
					fn := "__simrtInit_" + first
					mk(fn, &ast.AssignStmt{Lhs: lhs, Tok: token.ASSIGN, Rhs: []ast.Expr{vs.Values[0]}})
					for _, n := range vs.Names {
						if n.Name != "_" {
							r.pi.funcs[n.Name] = fn
						}
					}
				}
			}
		case *ast.FuncDecl:
			if d.Recv == nil && d.Name.Name == "init" {
				nInit++
				fn := fmt.Sprintf("__simrtOrigInit_%s_%d", base, nInit)
				d.Name = ast.NewIdent(fn)
				mk("init", &ast.ExprStmt{X: call(ast.NewIdent(fn))})
				r.pi.inits = append(r.pi.inits, fn)
			}
		}
	}
	return out
}

func (r *rw) decl(d ast.Decl) {
	switch d := d.(type) {
	case *ast.GenDecl:
		d.Doc = nil
		if d.Tok == token.IMPORT {
			return
		}
		for _, sp := range d.Specs {
			switch sp := sp.(type) {
			case *ast.TypeSpec:
				sp.Doc, sp.Comment = nil, nil
				r.fieldList(sp.TypeParams)
				sp.Type = r.typ(sp.Type)
			case *ast.ValueSpec:
				sp.Doc, sp.Comment = nil, nil
				r.valueSpec(sp)
			}
		}
	case *ast.FuncDecl:
		d.Doc = nil
		r.fieldList(d.Recv)
		r.funcType(d.Type)
		if d.Body != nil {
			r.block(d.Body)
		}
	}
}

func (r *rw) valueSpec(sp *ast.ValueSpec) {
	if sp.Type != nil {
		sp.Type = r.typ(sp.Type)
	}
	if len(sp.Names) == 2 && len(sp.Values) == 1 {
		if u, ok := unparen(sp.Values[0]).(*ast.UnaryExpr); ok && u.Op == token.ARROW {
			sp.Values[0] = method(r.expr(u.X, cRead), "Recv2At", r.site(u))
			return
		}
	}
	for i, v := range sp.Values {
		sp.Values[i] = r.expr(v, cRead)
	}
}

func unparen(e ast.Expr) ast.Expr {
	for {
		p, ok := e.(*ast.ParenExpr)
		if !ok {
			return e
		}
		e = p.X
	}
}

func (r *rw) fieldList(fl *ast.FieldList) {
	if fl == nil {
		return
	}
	for _, f := range fl.List {
		f.Doc, f.Comment = nil, nil
		f.Type = r.typ(f.Type)
	}
}

func (r *rw) funcType(ft *ast.FuncType) {
	if ft == nil {
		return
	}
	r.fieldList(ft.TypeParams)
	r.fieldList(ft.Params)
	r.fieldList(ft.Results)
}

// typ rewrites a type expression: chan T -> *simrt.Chan[T].
func (r *rw) typ(e ast.Expr) ast.Expr {
	switch e := e.(type) {
	case nil:
		return nil
	case *ast.ChanType:
		return &ast.StarExpr{X: &ast.IndexExpr{X: rt("Chan"), Index: r.typ(e.Value)}}
	case *ast.ArrayType:
		if e.Len != nil {
			if _, ok := e.Len.(*ast.Ellipsis); !ok {
				e.Len = r.expr(e.Len, cRead)
			}
		}
		e.Elt = r.typ(e.Elt)
	case *ast.MapType:
		e.Key = r.typ(e.Key)
		e.Value = r.typ(e.Value)
	case *ast.StarExpr:
		e.X = r.typ(e.X)
	case *ast.ParenExpr:
		e.X = r.typ(e.X)
	case *ast.Ellipsis:
		e.Elt = r.typ(e.Elt)
	case *ast.FuncType:
		r.funcType(e)
	case *ast.StructType:
		r.fieldList(e.Fields)
	case *ast.InterfaceType:
		r.fieldList(e.Methods)
	case *ast.IndexExpr:
		e.Index = r.typ(e.Index)
	case *ast.IndexListExpr:
		for i := range e.Indices {
			e.Indices[i] = r.typ(e.Indices[i])
		}
	case *ast.BinaryExpr: // type-set unions in constraints
		e.X = r.typ(e.X)
		e.Y = r.typ(e.Y)
	case *ast.UnaryExpr: // ~T
		e.X = r.typ(e.X)
	}
	return e
}

func (r *rw) isType(e ast.Expr) bool {
	tv, ok := r.info.Types[e]
	return ok && tv.IsType()
}

func (r *rw) typeOf(e ast.Expr) types.Type {
	if tv, ok := r.info.Types[e]; ok {
		return tv.Type
	}
	if id, ok := e.(*ast.Ident); ok {
		if o := r.info.Uses[id]; o != nil {
			return o.Type()
		}
		if o := r.info.Defs[id]; o != nil {
			return o.Type()
		}
	}
	return nil
}

func isChan(t types.Type) bool {
	if t == nil {
		return false
	}
	_, ok := t.Underlying().(*types.Chan)
	return ok
}

func isMap(t types.Type) bool {
	if t == nil {
		return false
	}
	_, ok := t.Underlying().(*types.Map)
	return ok
}

// syncType: values of these types are simulated objects themselves.
func syncType(t types.Type) bool {
	for {
		p, ok := t.(*types.Pointer)
		if !ok {
			break
		}
		t = p.Elem()
	}
	n, ok := t.(*types.Named)
	if !ok || n.Obj().Pkg() == nil {
		return false
	}
	switch n.Obj().Pkg().Path() {
	case "sync", "sync/atomic":
		return true
	}
	return false
}

// tracked reports whether e designates memory that may be shared: it is
// reached through a struct field, or rooted at a mutable package variable.
func (r *rw) tracked(e ast.Expr) bool {
	switch e := e.(type) {
	case *ast.ParenExpr:
		return r.tracked(e.X)
	case *ast.SelectorExpr:
		if s, ok := r.info.Selections[e]; ok && s.Kind() == types.FieldVal {
			return true
		}
		return false
	case *ast.IndexExpr:
		return r.tracked(e.X)
	case *ast.StarExpr:
		return r.tracked(e.X)
	case *ast.Ident:
		if v, ok := r.info.Uses[e].(*types.Var); ok && v.Parent() == r.pkg.Scope() && r.mut[v] {
			return true
		}
	}
	return false
}

// derefTracked: *p is instrumented when p is a local variable that is not a
// parameter (e.g. the pointer just loaded from an atomic.Pointer, a pooled
// buffer taken in this function) or is itself shared memory (a field).
func (r *rw) derefTracked(p ast.Expr) bool {
	p = unparen(p)
	if id, ok := p.(*ast.Ident); ok {
		o := r.info.Uses[id]
		v, isVar := o.(*types.Var)
		if !isVar || v.IsField() {
			return false
		}
		if v.Parent() == r.pkg.Scope() {
			return r.mut[v]
		}
		return !r.params[o]
	}
	return r.tracked(p)
}

func (r *rw) wrap(orig, rewritten ast.Expr, c ectx, site ast.Expr) ast.Expr {
	if !r.instr || c == cAddr {
		return rewritten
	}
	tv, ok := r.info.Types[orig]
	if !ok || !tv.Addressable() || tv.Type == nil || syncType(tv.Type) {
		return rewritten
	}
	fn := "Rd"
	if c == cWrite {
		fn = "Wr"
	}
	return &ast.ParenExpr{X: &ast.StarExpr{X: call(rt(fn), &ast.UnaryExpr{Op: token.AND, X: rewritten}, site)}}
}

func (r *rw) exprs(es []ast.Expr, c ectx) {
	for i, e := range es {
		es[i] = r.expr(e, c)
	}
}

func (r *rw) expr(e ast.Expr, c ectx) ast.Expr {
	if e == nil {
		return nil
	}
	if r.isType(e) {
		return r.typ(e)
	}
	switch e := e.(type) {
	case *ast.Ident:
		if v, ok := r.info.Uses[e].(*types.Var); ok && v.Parent() == r.pkg.Scope() && r.mut[v] && !v.IsField() {
			return r.wrap(e, e, c, r.site(e))
		}
		if o := r.info.Uses[e]; o != nil && r.sharedLocal[o] {
			return r.wrap(e, e, c, r.site(e))
		}
		return e
	case *ast.BasicLit:
		return e
	case *ast.ParenExpr:
		e.X = r.expr(e.X, c)
		return e
	case *ast.SelectorExpr:
		sel, ok := r.info.Selections[e]
		if !ok {
			return e // qualified identifier
		}
		site := r.site(e)
		if sel.Kind() == types.FieldVal {
			xt := r.typeOf(e.X)
			e.X = r.expr(e.X, cRead)
			if xt != nil && syncType(xt) {
				return e
			}
			return r.wrap(e, e, c, site)
		}
		e.X = r.expr(e.X, cRead)
		return e
	case *ast.IndexExpr:
		if _, inst := r.info.Instances[identOf(e.X)]; inst || r.isType(e.X) {
			e.Index = r.typ(e.Index)
			return e
		}
		xt := r.typeOf(e.X)
		tracked := r.tracked(e)
		site := r.site(e)
		switch u := under(xt).(type) {
		case *types.Map:
			x := r.expr(e.X, cRead)
			e.Index = r.expr(e.Index, cRead)
			if r.instr && (tracked || true) && !r.readOnlyRoot(e.X) {
				fn := "MapRd"
				if c == cWrite {
					fn = "MapWr"
				}
				x = call(rt(fn), x, site)
			}
			e.X = x
			return e
		case *types.Array:
			e.X = r.expr(e.X, cAddr)
			e.Index = r.expr(e.Index, cRead)
			_ = u
			if tracked {
				return r.wrap(e, e, c, site)
			}
			return e
		default:
			e.X = r.expr(e.X, cRead)
			e.Index = r.expr(e.Index, cRead)
			if tracked {
				return r.wrap(e, e, c, site)
			}
			return e
		}
	case *ast.IndexListExpr:
		for i := range e.Indices {
			e.Indices[i] = r.typ(e.Indices[i])
		}
		return e
	case *ast.SliceExpr:
		if _, ok := under(r.typeOf(e.X)).(*types.Array); ok {
			e.X = r.expr(e.X, cAddr)
		} else {
			e.X = r.expr(e.X, cRead)
		}
		e.Low = r.expr(e.Low, cRead)
		e.High = r.expr(e.High, cRead)
		e.Max = r.expr(e.Max, cRead)
		return e
	case *ast.StarExpr:
		site := r.site(e)
		deref := r.instr && c != cAddr && r.derefTracked(e.X)
		if tv, ok := r.info.Types[e]; !ok || tv.Type == nil || syncType(tv.Type) {
			deref = false
		}
		e.X = r.expr(e.X, cRead)
		if deref {
			fn := "Rd"
			if c == cWrite {
				fn = "Wr"
			}
			return &ast.ParenExpr{X: &ast.StarExpr{X: call(rt(fn), e.X, site)}}
		}
		return e
	case *ast.UnaryExpr:
		switch e.Op {
		case token.AND:
			e.X = r.expr(e.X, cAddr)
			return e
		case token.ARROW:
			return method(r.expr(e.X, cRead), "RecvAt", r.site(e))
		}
		e.X = r.expr(e.X, cRead)
		return e
	case *ast.BinaryExpr:
		e.X = r.expr(e.X, cRead)
		e.Y = r.expr(e.Y, cRead)
		return e
	case *ast.KeyValueExpr:
		e.Value = r.expr(e.Value, cRead)
		return e
	case *ast.CompositeLit:
		isStruct := false
		if t := r.typeOf(e); t != nil {
			tt := t
			if p, ok := tt.Underlying().(*types.Pointer); ok {
				tt = p.Elem()
			}
			_, isStruct = tt.Underlying().(*types.Struct)
		}
		if e.Type != nil {
			e.Type = r.typ(e.Type)
		}
		for i, el := range e.Elts {
			if kv, ok := el.(*ast.KeyValueExpr); ok {
				if !isStruct {
					kv.Key = r.expr(kv.Key, cRead)
				}
				kv.Value = r.expr(kv.Value, cRead)
			} else {
				e.Elts[i] = r.expr(el, cRead)
			}
		}
		return e
	case *ast.FuncLit:
		r.funcType(e.Type)
		r.block(e.Body)
		return e
	case *ast.TypeAssertExpr:
		e.X = r.expr(e.X, cRead)
		if e.Type != nil {
			e.Type = r.typ(e.Type)
		}
		return e
	case *ast.CallExpr:
		return r.call(e)
	case *ast.ArrayType, *ast.MapType, *ast.ChanType, *ast.FuncType, *ast.StructType, *ast.InterfaceType, *ast.Ellipsis:
		return r.typ(e)
	}
	return e
}

func identOf(e ast.Expr) *ast.Ident {
	switch e := e.(type) {
	case *ast.Ident:
		return e
	case *ast.SelectorExpr:
		return e.Sel
	}
	return nil
}

func under(t types.Type) types.Type {
	if t == nil {
		return nil
	}
	u := t.Underlying()
	if p, ok := u.(*types.Pointer); ok {
		if a, ok := p.Elem().Underlying().(*types.Array); ok {
			_ = a
			return types.NewSlice(a.Elem()) // pointer to array indexes like a slice
		}
	}
	return u
}

// readOnlyRoot: a map rooted at a package variable that is never mutated.
func (r *rw) readOnlyRoot(e ast.Expr) bool {
	if id, ok := unparen(e).(*ast.Ident); ok {
		if v, ok := r.info.Uses[id].(*types.Var); ok && v.Parent() == r.pkg.Scope() && !r.mut[v] {
			return true
		}
	}
	return false
}

func (r *rw) builtin(e *ast.CallExpr) string {
	id, ok := unparen(e.Fun).(*ast.Ident)
	if !ok {
		return ""
	}
	if _, ok := r.info.Uses[id].(*types.Builtin); ok {
		return id.Name
	}
	return ""
}

func (r *rw) call(e *ast.CallExpr) ast.Expr {
	switch r.builtin(e) {
	case "len", "cap":
		if isChan(r.typeOf(e.Args[0])) {
			name := "Len"
			if r.builtin(e) == "cap" {
				name = "Cap"
			}
			return method(r.expr(e.Args[0], cRead), name)
		}
	case "close":
		return method(r.expr(e.Args[0], cRead), "CloseAt", r.site(e))
	case "make":
		if ct, ok := unparen(e.Args[0]).(*ast.ChanType); ok {
			size := ast.Expr(&ast.BasicLit{Kind: token.INT, Value: "0"})
			if len(e.Args) > 1 {
				size = r.expr(e.Args[1], cRead)
			}
			return call(&ast.IndexExpr{X: rt("MakeChan"), Index: r.typ(ct.Value)}, size)
		}
		if isChan(r.typeOf(e.Args[0])) { // named channel type
			size := ast.Expr(&ast.BasicLit{Kind: token.INT, Value: "0"})
			if len(e.Args) > 1 {
				size = r.expr(e.Args[1], cRead)
			}
			elem := r.typeOf(e.Args[0]).Underlying().(*types.Chan).Elem()
			return call(e.Args[0], call(&ast.IndexExpr{X: rt("MakeChan"), Index: r.typeExprOf(elem)}, size))
		}
		e.Args[0] = r.typ(e.Args[0])
		r.exprs(e.Args[1:], cRead)
		return e
	case "new":
		e.Args[0] = r.typ(e.Args[0])
		return e
	case "delete":
		m := r.expr(e.Args[0], cRead)
		if r.instr && !r.readOnlyRoot(e.Args[0]) {
			m = call(rt("MapWr"), m, r.site(e))
		}
		e.Args[0] = m
		e.Args[1] = r.expr(e.Args[1], cRead)
		return e
	case "append":
		// append writes into the spare capacity of its first argument's array,
		// memory that every other slice of that array shares: recorded (and a
		// pre-emption point) through the generic helpers of simrt
		if r.instr && len(e.Args) >= 2 {
			site := r.site(e)
			variadic := e.Ellipsis.IsValid()
			var lastIsString bool
			if variadic {
				if b, ok := r.typeOf(e.Args[len(e.Args)-1]).Underlying().(*types.Basic); ok && b.Info()&types.IsString != 0 {
					lastIsString = true
				}
			}
			r.exprs(e.Args, cRead)
			args := append([]ast.Expr{site}, e.Args...)
			switch {
			case variadic && lastIsString:
				args[len(args)-1] = call(ast.NewIdent("string"), args[len(args)-1])
				return call(rt("AppendString"), args...)
			case variadic:
				return call(rt("AppendSlice"), args...)
			}
			return call(rt("Append"), args...)
		}
	case "copy":
		if r.instr && len(e.Args) == 2 {
			site := r.site(e)
			srcIsString := false
			if b, ok := r.typeOf(e.Args[1]).Underlying().(*types.Basic); ok && b.Info()&types.IsString != 0 {
				srcIsString = true
			}
			r.exprs(e.Args, cRead)
			if srcIsString {
				return call(rt("CopyString"), site, e.Args[0], call(ast.NewIdent("string"), e.Args[1]))
			}
			return call(rt("Copy"), site, e.Args[0], e.Args[1])
		}
	case "clear":
		if isMap(r.typeOf(e.Args[0])) {
			m := r.expr(e.Args[0], cRead)
			if r.instr {
				m = call(rt("MapWr"), m, r.site(e))
			}
			e.Args[0] = m
			return e
		}
	}
	if r.isType(e.Fun) {
		e.Fun = r.typ(e.Fun)
		r.exprs(e.Args, cRead)
		return e
	}
	e.Fun = r.expr(e.Fun, cRead)
	r.exprs(e.Args, cRead)
	return e
}

// typeExprOf renders a types.Type as an expression (only used for element
// types of named channel types).
func (r *rw) typeExprOf(t types.Type) ast.Expr {
	s := types.TypeString(t, func(p *types.Package) string {
		if p == r.pkg {
			return ""
		}
		return p.Name()
	})
	e, err := parser.ParseExpr(s)
	if err != nil {
		return ast.NewIdent(s)
	}
	return r.typ(e)
}

// ---- statements ----

func (r *rw) block(b *ast.BlockStmt) {
	if b == nil {
		return
	}
	r.stmts(b.List)
}

func (r *rw) stmts(list []ast.Stmt) {
	for i, s := range list {
		list[i] = r.stmt(s)
	}
}

func (r *rw) stmt(s ast.Stmt) ast.Stmt {
	switch s := s.(type) {
	case nil:
		return nil
	case *ast.ExprStmt:
		s.X = r.expr(s.X, cRead)
	case *ast.SendStmt:
		return &ast.ExprStmt{X: method(r.expr(s.Chan, cRead), "SendAt", r.site(s), r.expr(s.Value, cRead))}
	case *ast.IncDecStmt:
		s.X = r.expr(s.X, cWrite)
	case *ast.AssignStmt:
		r.assign(s)
	case *ast.GoStmt:
		return r.goStmt(s)
	case *ast.DeferStmt:
		s.Call = r.expr(s.Call, cRead).(*ast.CallExpr)
	case *ast.ReturnStmt:
		r.exprs(s.Results, cRead)
	case *ast.BranchStmt:
	case *ast.BlockStmt:
		r.block(s)
	case *ast.IfStmt:
		s.Init = r.stmt(s.Init)
		s.Cond = r.expr(s.Cond, cRead)
		r.block(s.Body)
		s.Else = r.stmt(s.Else)
	case *ast.CaseClause:
		r.exprs(s.List, cRead)
		r.stmts(s.Body)
	case *ast.SwitchStmt:
		s.Init = r.stmt(s.Init)
		s.Tag = r.expr(s.Tag, cRead)
		r.block(s.Body)
	case *ast.TypeSwitchStmt:
		s.Init = r.stmt(s.Init)
		switch a := s.Assign.(type) {
		case *ast.AssignStmt:
			ta := a.Rhs[0].(*ast.TypeAssertExpr)
			ta.X = r.expr(ta.X, cRead)
		case *ast.ExprStmt:
			ta := a.X.(*ast.TypeAssertExpr)
			ta.X = r.expr(ta.X, cRead)
		}
		for _, cc := range s.Body.List {
			c := cc.(*ast.CaseClause)
			for i, t := range c.List {
				c.List[i] = r.typ(t)
			}
			r.stmts(c.Body)
		}
	case *ast.SelectStmt:
		return r.selectStmt(s)
	case *ast.ForStmt:
		s.Init = r.stmt(s.Init)
		s.Cond = r.expr(s.Cond, cRead)
		s.Post = r.stmt(s.Post)
		r.block(s.Body)
	case *ast.RangeStmt:
		return r.rangeStmt(s)
	case *ast.LabeledStmt:
		s.Stmt = r.stmt(s.Stmt)
	case *ast.DeclStmt:
		r.decl(s.Decl)
	case *ast.EmptyStmt:
	}
	return s
}

func (r *rw) assign(s *ast.AssignStmt) {
	lc := cWrite
	if s.Tok == token.DEFINE {
		lc = cAddr // identifiers being declared: leave alone
	}
	// v, ok = <-c
	if len(s.Lhs) == 2 && len(s.Rhs) == 1 {
		if u, ok := unparen(s.Rhs[0]).(*ast.UnaryExpr); ok && u.Op == token.ARROW {
			s.Rhs[0] = method(r.expr(u.X, cRead), "Recv2At", r.site(u))
			if s.Tok != token.DEFINE {
				r.exprs(s.Lhs, lc)
			}
			return
		}
	}
	r.exprs(s.Rhs, cRead)
	if s.Tok != token.DEFINE {
		r.exprs(s.Lhs, lc)
	}
}

func (r *rw) goStmt(s *ast.GoStmt) ast.Stmt {
	c := s.Call
	site := r.site(s)
	// operands are evaluated by the go statement itself, the call happens in
	// the new goroutine
	var lhs []ast.Expr
	var rhs []ast.Expr
	hoist := func(e ast.Expr) ast.Expr {
		tv := r.info.Types[e]
		if tv.Value != nil || tv.IsNil() || tv.IsType() {
			return r.expr(e, cRead)
		}
		if _, ok := tv.Type.(*types.Tuple); ok {
			return r.expr(e, cRead)
		}
		if _, ok := e.(*ast.FuncLit); ok {
			return r.expr(e, cRead)
		}
		id := r.newTmp("g")
		lhs = append(lhs, id)
		rhs = append(rhs, r.expr(e, cRead))
		return id
	}
	if r.builtin(c) == "" && !r.isType(c.Fun) {
		c.Fun = hoist(c.Fun)
		for i, a := range c.Args {
			c.Args[i] = hoist(a)
		}
	} else {
		c = r.expr(c, cRead).(*ast.CallExpr)
	}
	goCall := &ast.ExprStmt{X: call(rt("Go"), site, &ast.FuncLit{
		Type: &ast.FuncType{Params: &ast.FieldList{}},
		Body: &ast.BlockStmt{List: []ast.Stmt{&ast.ExprStmt{X: c}}},
	})}
	if len(lhs) == 0 {
		return goCall
	}
	return &ast.BlockStmt{List: []ast.Stmt{
		&ast.AssignStmt{Lhs: lhs, Tok: token.DEFINE, Rhs: rhs},
		goCall,
	}}
}

func (r *rw) selectStmt(s *ast.SelectStmt) ast.Stmt {
	site := r.site(s)
	var names []ast.Expr
	var inits []ast.Expr
	hasDefault := "false"
	var clauses []ast.Stmt
	idx := 0
	for _, cl := range s.Body.List {
		cc := cl.(*ast.CommClause)
		body := cc.Body
		var caseExpr ast.Expr
		var pre []ast.Stmt
		switch comm := cc.Comm.(type) {
		case nil:
			hasDefault = "true"
			caseExpr = &ast.UnaryExpr{Op: token.SUB, X: &ast.BasicLit{Kind: token.INT, Value: "1"}}
		case *ast.SendStmt:
			id := r.newTmp("s")
			names = append(names, id)
			inits = append(inits, call(rt("SendOf"), r.expr(comm.Chan, cRead), r.expr(comm.Value, cRead)))
			caseExpr = &ast.BasicLit{Kind: token.INT, Value: strconv.Itoa(idx)}
			idx++
		case *ast.ExprStmt: // case <-c:
			u := unparen(comm.X).(*ast.UnaryExpr)
			id := r.newTmp("s")
			names = append(names, id)
			inits = append(inits, call(rt("RecvOf"), r.expr(u.X, cRead)))
			caseExpr = &ast.BasicLit{Kind: token.INT, Value: strconv.Itoa(idx)}
			idx++
		case *ast.AssignStmt: // case v[, ok] (:= | =) <-c:
			u := unparen(comm.Rhs[0]).(*ast.UnaryExpr)
			id := r.newTmp("s")
			names = append(names, id)
			inits = append(inits, call(rt("RecvOf"), r.expr(u.X, cRead)))
			caseExpr = &ast.BasicLit{Kind: token.INT, Value: strconv.Itoa(idx)}
			idx++
			rhs := []ast.Expr{&ast.SelectorExpr{X: id, Sel: ast.NewIdent("V")}}
			if len(comm.Lhs) == 2 {
				rhs = append(rhs, &ast.SelectorExpr{X: id, Sel: ast.NewIdent("Ok")})
			}
			lhs := comm.Lhs
			if comm.Tok != token.DEFINE {
				r.exprs(lhs, cWrite)
			}
			pre = append(pre, &ast.AssignStmt{Lhs: lhs, Tok: comm.Tok, Rhs: rhs})
		}
		r.stmts(body)
		clauses = append(clauses, &ast.CaseClause{List: []ast.Expr{caseExpr}, Body: append(pre, body...)})
	}
	clauses = append(clauses, &ast.CaseClause{Body: []ast.Stmt{&ast.ExprStmt{X: call(ast.NewIdent("panic"), &ast.BasicLit{Kind: token.STRING, Value: `"simrt: impossible select index"`})}}})
	sw := &ast.SwitchStmt{Body: &ast.BlockStmt{List: clauses}}
	args := []ast.Expr{site, ast.NewIdent(hasDefault)}
	args = append(args, names...)
	sw.Tag = call(rt("Select"), args...)
	if len(names) > 0 {
		sw.Init = &ast.AssignStmt{Lhs: names, Tok: token.DEFINE, Rhs: inits}
	}
	return sw
}

func (r *rw) rangeStmt(s *ast.RangeStmt) ast.Stmt {
	xt := r.typeOf(s.X)
	if isChan(xt) {
		c := r.newTmp("c")
		ok := r.newTmp("ok")
		recv := method(c, "Recv2At", r.site(s))
		var head []ast.Stmt
		brk := &ast.IfStmt{Cond: &ast.UnaryExpr{Op: token.NOT, X: ok}, Body: &ast.BlockStmt{List: []ast.Stmt{&ast.BranchStmt{Tok: token.BREAK}}}}
		switch {
		case s.Key == nil:
			head = []ast.Stmt{&ast.AssignStmt{Lhs: []ast.Expr{ast.NewIdent("_"), ok}, Tok: token.DEFINE, Rhs: []ast.Expr{recv}}, brk}
		case s.Tok == token.DEFINE:
			head = []ast.Stmt{&ast.AssignStmt{Lhs: []ast.Expr{s.Key, ok}, Tok: token.DEFINE, Rhs: []ast.Expr{recv}}, brk}
		default:
			v := r.newTmp("v")
			head = []ast.Stmt{
				&ast.AssignStmt{Lhs: []ast.Expr{v, ok}, Tok: token.DEFINE, Rhs: []ast.Expr{recv}}, brk,
				&ast.AssignStmt{Lhs: []ast.Expr{r.expr(s.Key, cWrite)}, Tok: token.ASSIGN, Rhs: []ast.Expr{v}},
			}
		}
		x := r.expr(s.X, cRead)
		r.block(s.Body)
		return &ast.ForStmt{
			Init: &ast.AssignStmt{Lhs: []ast.Expr{c}, Tok: token.DEFINE, Rhs: []ast.Expr{x}},
			Body: &ast.BlockStmt{List: append(head, s.Body.List...)},
		}
	}
	if isMap(xt) {
		x := r.expr(s.X, cRead)
		if r.instr && !r.readOnlyRoot(s.X) {
			x = call(rt("MapRd"), x, r.site(s))
		}
		s.X = x
	} else {
		s.X = r.expr(s.X, cRead)
	}
	if s.Tok == token.ASSIGN {
		s.Key = r.expr(s.Key, cWrite)
		s.Value = r.expr(s.Value, cWrite)
	}
	r.block(s.Body)
	return s
}
