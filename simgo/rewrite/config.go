package rewrite

import (
	"fmt"
	"os"
	"os/exec"
	"path/filepath"
	"strings"
)

var baseShims = map[string]string{
	"sync":        "simgo/shim/ssync",
	"sync/atomic": "simgo/shim/satomic",
	"time":        "simgo/shim/stime",
	"crypto/rand": "simgo/shim/srand",
}

func with(extra map[string]string) map[string]string {
	m := map[string]string{}
	for k, v := range baseShims {
		m[k] = v
	}
	for k, v := range extra {
		m[k] = v
	}
	return m
}

// Configs is how each glb package is rewritten when a world needs it.
var Configs = map[string]PkgConfig{
	"tasklane":     {Dir: "tasklane", Shims: with(map[string]string{"context": "simgo/shim/sctx"})},
	"util/ioutil":  {Dir: "util/ioutil", Shims: with(map[string]string{"context": "simgo/shim/sctx"})},
	"logger":       {Dir: "logger", Shims: with(nil)},
	"httpd":        {Dir: "httpd", Shims: with(nil)},
	"util/netutil": {Dir: "util/netutil", Shims: with(nil), Exclude: []string{"netutil.go"}},
	"util/osutil": {Dir: "util/osutil", Shims: with(nil), Exclude: []string{"osutil.go"},
		FileShims: map[string]map[string]string{"file.go": {"os": "simgo/shim/sos"}}},
}

// CopyTree copies the working tree of src (without .git) to dst.
func CopyTree(src, dst string) error {
	if err := os.MkdirAll(dst, 0755); err != nil {
		return err
	}
	cmd := exec.Command("rsync", "-a", "--exclude", ".git", src+"/", dst+"/")
	out, err := cmd.CombinedOutput()
	if err != nil {
		return fmt.Errorf("rsync: %v: %s", err, out)
	}
	return nil
}

// Prepare copies repo to scratch/glb, rewrites pkgs there and makes the copy
// depend on simgo (at simgoDir).
func Prepare(repo, scratch, simgoDir string, pkgs []string) error {
	dst := filepath.Join(scratch, "glb")
	if err := CopyTree(repo, dst); err != nil {
		return err
	}
	for _, p := range pkgs {
		cfg, ok := Configs[p]
		if !ok {
			return fmt.Errorf("no rewrite configuration for package %q", p)
		}
		if _, err := os.Stat(filepath.Join(dst, cfg.Dir)); err != nil {
			return fmt.Errorf("package %s missing in %s", p, repo)
		}
		if err := Package(dst, cfg); err != nil {
			return err
		}
	}
	// a pristine copy under another module path, for worlds that cross-check a
	// simulated seam against the real thing (fsworld: the real file system)
	orig := filepath.Join(scratch, "glborig")
	if err := CopyTree(repo, orig); err != nil {
		return err
	}
	if om, err := os.ReadFile(filepath.Join(orig, "go.mod")); err == nil {
		lines := strings.Split(string(om), "\n")
		for i, l := range lines {
			if strings.HasPrefix(l, "module ") {
				lines[i] = "module glborig"
			}
		}
		os.WriteFile(filepath.Join(orig, "go.mod"), []byte(strings.Join(lines, "\n")), 0644)
	}
	modFile := filepath.Join(dst, "go.mod")
	mod, err := os.ReadFile(modFile)
	if err != nil {
		return err
	}
	s := strings.TrimRight(string(mod), "\n") + "\n\nrequire simgo v0.0.0\n\nreplace simgo => " + simgoDir + "\n"
	return os.WriteFile(modFile, []byte(s), 0644)
}
