// fsworld: util/osutil.CopyFile / MoveFile over a simulated file system (C18).
//
// Real code: util/osutil/file.go (control flow, defers, error handling) and
// io.Copy. Simulated: the file system, reached by substituting the os import
// of that one file with simgo/shim/sos.
//
// The scenario space (operation x size x source kind x destination layout) and,
// for each scenario, every single-fault placement in its recorded call trace
// are enumerated completely; two- and three-fault plans are sampled by seed.
// Every fault-free scenario is also executed by the unrewritten package on the
// real file system and must agree with the simulated run.
//
// A run is a short HISTORY of calls in one process: up to two earlier calls
// (each in its own directories, each possibly hit by a fault in the middle)
// come before the scenario under test, so that whatever the package keeps
// between calls (pooled buffers, cached descriptors or names) is in the state
// a failed or a successful earlier copy leaves behind. Every call of the history
// is held to the same oracle. The real side runs the same history, fault-free,
// in a child process of its own so that the real package starts from fresh
// package state as the simulated one does.
package main

import (
	"bytes"
	"encoding/json"
	"errors"
	"fmt"
	"io/fs"
	"os"
	"os/exec"
	"path/filepath"
	"strings"

	"github.com/whoisnian/glb/util/osutil"
	realosutil "glborig/util/osutil"

	"simgo/kit"
	"simgo/shim/sos"
	"simgo/simrt"
)

func main() {
	if len(os.Args) == 3 && os.Args[1] == "-realfs" {
		realChild(os.Args[2])
		return
	}
	kit.Main(kit.World{Name: "fsworld", Run: run, Enum: enumerate})
}

var sizes = []int{0, 1, 4095, 32768, 32769, 65536, 100000, 1 << 20, sparseSize, zeroTailSize, 5<<20 + 3}

// zeroTailSize: four copy blocks, the last two all zeros (a preallocated or
// zero-padded file: what a hole-skipping copy would leave short)
const zeroTailSize = 131072

// nEnumSizes: the sizes whose scenarios and single-fault placements are
// enumerated; the remaining one ("several MiB": about a hundred copy blocks)
// is only drawn by the seeded part
const nEnumSizes = 10

// sparseSize: a source of three copy blocks whose middle block is all zeros
// (what a sparse-aware copy would skip)
const sparseSize = 98304

var srcKinds = []string{"regular", "missing", "via-symlink"}

var dstKinds = []string{
	"missing", "existing-shorter", "existing-longer", "existing-same-length", "same-path", "dot-slash-spelling", "dotdot-spelling",
	"symlink-to-source", "hardlink-of-source", "is-a-directory", "parent-missing", "parent-is-a-file",
	"other-mount-missing", "other-mount-existing", "dangling-symlink", "symlink-to-other-file", "symlink-on-other-mount-to-source",
	"through-directory-symlink", "through-directory-symlink-other-name",
}

type scenario struct {
	Op      int `json:"op"` // 0 CopyFile, 1 MoveFile
	Size    int `json:"size"`
	SrcKind int `json:"src"`
	DstKind int `json:"dst"`
	// SamePair: an earlier CopyFile with the same two path strings came first,
	// made when nothing existed yet under the destination name (whatever it
	// created there is removed again before the destination side is laid out)
	SamePair bool `json:"same_pair,omitempty"`
}

// what an earlier call of a history is drawn from
var preSizes = []int{1, 3, 4, 6}        // indices into sizes: 1, 32768, 32769, 100000
var preDst = []int{0, 2, 8, 10, 12, 13} // missing, existing-longer, hardlink-of-source, parent-missing, other-mount-*

func (s scenario) String() string {
	sp := ""
	if s.SamePair {
		sp = ", after an earlier CopyFile of the same two paths"
	}
	return fmt.Sprintf("%s(size=%d, src=%s, dst=%s%s)", []string{"CopyFile", "MoveFile"}[s.Op], sizes[s.Size], srcKinds[s.SrcKind], dstKinds[s.DstKind], sp)
}

func content(n int, salt byte) []byte {
	b := make([]byte, n)
	defer func() {
		if n == sparseSize && salt == 1 {
			for i := 32768; i < 65536; i++ {
				b[i] = 0
			}
		}
		if n == zeroTailSize && salt == 1 {
			for i := 65536; i < n; i++ {
				b[i] = 0
			}
		}
	}()
	x := uint32(2463534242) + uint32(salt)
	for i := range b {
		x ^= x << 13
		x ^= x >> 17
		x ^= x << 5
		b[i] = byte(x)
	}
	return b
}

// layout describes a scenario in terms both file systems understand.
type layout struct {
	srcPath, dstPath string
	mk               []func(fsys fsops)
}

type fsops interface {
	write(p string, data []byte)
	mkdir(p string)
	symlink(target, link string)
	link(oldp, newp string)
	remove(p string)
	root() string // prefix of device 1 work dir
	root2() string
}

// samePairApplies: destination layouts whose destination is a name of its own
// (not a spelling of the source's name, no helper directory in its path).
func samePairApplies(s scenario) bool {
	switch dstKinds[s.DstKind] {
	case "same-path", "dot-slash-spelling", "dotdot-spelling", "through-directory-symlink", "through-directory-symlink-other-name":
		return false
	}
	return true
}

// build returns the two paths and the steps that lay the scenario out; the
// first nSrc steps create the source side.
func build(s scenario) (src, dst string, steps []func(fsops)) {
	src, dst, steps, _ = build2(s)
	return
}

func build2(s scenario) (string, string, []func(fsops), int) {
	src, dst, steps := buildAll(s)
	return src, dst, steps, nSrcSteps(s)
}

func nSrcSteps(s scenario) int {
	if s.SrcKind == 1 {
		return 0
	}
	return 1
}

func buildAll(s scenario) (src, dst string, steps []func(fsops)) {
	data := content(sizes[s.Size], 1)
	src = "W/src.bin"
	switch s.SrcKind {
	case 0:
		steps = append(steps, func(f fsops) { f.write("W/src.bin", data) })
	case 1:
	case 2:
		steps = append(steps, func(f fsops) { f.write("W/real-src.bin", data); f.symlink("W/real-src.bin", "W/src.bin") })
	case 3:
		steps = append(steps, func(f fsops) { f.mkdir("W/src.bin") })
	}
	srcTarget := "W/src.bin"
	if s.SrcKind == 2 {
		srcTarget = "W/real-src.bin"
	}
	switch dstKinds[s.DstKind] {
	case "missing":
		dst = "W/dst.bin"
	case "existing-shorter":
		dst = "W/dst.bin"
		steps = append(steps, func(f fsops) { f.write("W/dst.bin", content(sizes[s.Size]/2, 2)) })
	case "existing-same-length":
		dst = "W/dst.bin"
		steps = append(steps, func(f fsops) { f.write("W/dst.bin", content(sizes[s.Size], 6)) })
	case "existing-longer":
		dst = "W/dst.bin"
		steps = append(steps, func(f fsops) { f.write("W/dst.bin", content(sizes[s.Size]+777, 3)) })
	case "same-path":
		dst = src
	case "dot-slash-spelling":
		dst = "W/./src.bin"
	case "dotdot-spelling":
		dst = "W/sub/../src.bin"
		steps = append(steps, func(f fsops) { f.mkdir("W/sub") })
	case "symlink-to-source":
		dst = "W/alias.bin"
		steps = append(steps, func(f fsops) { f.symlink(srcTarget, "W/alias.bin") })
	case "hardlink-of-source":
		dst = "W/hard.bin"
		if s.SrcKind != 1 {
			steps = append(steps, func(f fsops) { f.link(srcTarget, "W/hard.bin") })
		}
	case "is-a-directory":
		dst = "W/adir"
		steps = append(steps, func(f fsops) { f.mkdir("W/adir") })
	case "parent-missing":
		dst = "W/nodir/dst.bin"
	case "parent-is-a-file":
		dst = "W/afile/dst.bin"
		steps = append(steps, func(f fsops) { f.write("W/afile", []byte("x")) })
	case "other-mount-missing":
		dst = "M/dst.bin"
	case "other-mount-existing":
		dst = "M/dst.bin"
		steps = append(steps, func(f fsops) { f.write("M/dst.bin", content(123, 4)) })
	case "symlink-to-other-file":
		dst = "W/link.bin"
		steps = append(steps, func(f fsops) { f.write("W/other.bin", content(321, 5)); f.symlink("W/other.bin", "W/link.bin") })
	case "symlink-on-other-mount-to-source":
		dst = "M/alias.bin"
		steps = append(steps, func(f fsops) { f.symlink(srcTarget, "M/alias.bin") })
	case "through-directory-symlink":
		// the source's own directory entry, reached through a symlink to its directory
		dst = "W/dlink/src.bin"
		steps = append(steps, func(f fsops) { f.symlink("W/", "W/dlink") })
	case "through-directory-symlink-other-name":
		dst = "W/dlink/fresh.bin"
		steps = append(steps, func(f fsops) { f.symlink("W/", "W/dlink") })
	case "dangling-symlink":
		dst = "W/dangling.bin"
		steps = append(steps, func(f fsops) { f.symlink("W/nowhere.bin", "W/dangling.bin") })
	}
	return src, dst, steps
}

// ---- the simulated side ----

type simOps struct {
	f   *sos.FS
	sub string // "" for the call under test, "/pre<i>" for an earlier call of the history
}

func (o simOps) p(p string) string {
	p = strings.Replace(p, "W/", "/work"+o.sub+"/", 1)
	return strings.Replace(p, "M/", "/mnt2"+o.sub+"/", 1)
}
func (o simOps) write(p string, d []byte)    { o.f.WriteFile(o.p(p), d) }
func (o simOps) mkdir(p string)              { o.f.MkdirAll(o.p(p)) }
func (o simOps) symlink(target, link string) { o.f.SymlinkRaw(o.p(target), o.p(link)) }
func (o simOps) link(a, b string)            { o.f.LinkRaw(o.p(a), o.p(b)) }
func (o simOps) remove(p string)             { o.f.RemoveRaw(o.p(p)) }
func (o simOps) root() string                { return "/work" + o.sub }
func (o simOps) root2() string               { return "/mnt2" + o.sub }

type result struct {
	Err       string `json:"err"`
	ErrClass  string `json:"err_class"`
	SrcExists bool   `json:"src_name_exists"`
	SrcData   string `json:"src_content"`
	DstData   string `json:"dst_content"`
}

func errClass(err error) string {
	switch {
	case err == nil:
		return "nil"
	case errors.Is(err, fs.ErrNotExist):
		return "ENOENT"
	case errors.Is(err, fs.ErrPermission):
		return "EPERM/EACCES"
	}
	var pe *fs.PathError
	if errors.As(err, &pe) {
		return fmt.Sprint(pe.Err)
	}
	var le *os.LinkError
	if errors.As(err, &le) {
		return fmt.Sprint(le.Err)
	}
	return "other"
}

func digest(b []byte, ok bool) string {
	if !ok {
		return "(absent)"
	}
	h := uint64(14695981039346656037)
	for _, c := range b {
		h ^= uint64(c)
		h *= 1099511628211
	}
	return fmt.Sprintf("%d bytes #%016x", len(b), h)
}

type world struct {
	viol []kit.Violation
	sc   scenario
	smp  map[string]any
	nt   bool
	// the primitive-call trace of each call of the history
	calls [][]string
}

func (w *world) violate(class, detail string) {
	for _, v := range w.viol {
		if v.Class == class {
			return
		}
	}
	sig := class + " " + []string{"CopyFile", "MoveFile"}[w.sc.Op] + " dst=" + dstKinds[w.sc.DstKind]
	w.viol = append(w.viol, kit.Violation{Prop: "C18", Class: class, Detail: w.sc.String() + ": " + detail, Sig: sig, Seq: simrt.Seq()})
}

func run(ch simrt.Chooser, prop string, keep bool) *kit.Outcome {
	w := &world{}
	res := simrt.Run(simrt.RunConfig{KeepLog: keep, StepCap: 100000, NoRace: true}, ch, w.main)
	o := &kit.Outcome{Res: res, Viol: w.viol, Sample: w.smp, NonTrivial: w.nt}
	if res.End != "ok" {
		o.Infra = "run ended with " + res.End
	}
	for _, p := range res.Panics {
		o.Viol = append(o.Viol, kit.Violation{Prop: "C18", Class: "panic", Detail: w.sc.String() + ": " + p.Value + "\n" + p.Stack, Sig: "panic", Seq: p.Seq})
	}
	return o
}

type fault struct{ at, kind int }

type call struct {
	sc     scenario
	faults []fault
	sub    string
}

func (w *world) main() {
	ch := simrt.Choose
	s := scenario{Op: ch("sc.op", 2), Size: ch("sc.size", len(sizes)), SrcKind: ch("sc.src", len(srcKinds)), DstKind: ch("sc.dst", len(dstKinds))}
	nFaults := ch("faults.n", 4)
	mainCall := call{sc: s}
	for i := 0; i < nFaults; i++ {
		at := ch("fault.at", 96)
		mainCall.faults = append(mainCall.faults, fault{at, ch("fault.kind", 6)})
	}
	// the earlier calls of the history (none when the choices run out: the
	// enumerated single-call scenarios)
	var hist []call
	nPre := ch("prelude.n", 3)
	for i := 0; i < nPre; i++ {
		c := call{sc: scenario{Op: ch("pre.op", 2), Size: preSizes[ch("pre.size", len(preSizes))], SrcKind: 0, DstKind: preDst[ch("pre.dst", len(preDst))]}, sub: fmt.Sprintf("/pre%d", i)}
		if ch("pre.faulted", 4) != 0 {
			c.faults = append(c.faults, fault{ch("pre.fault.at", 40), ch("pre.fault.kind", 6)})
		}
		hist = append(hist, c)
	}
	mainCall.sc.SamePair = ch("sc.samepair", 4) == 3
	hist = append(hist, mainCall)
	if nPre > 0 {
		simrt.Probe("history_with_earlier_calls")
	}

	f := sos.Reset()
	var results []result
	var scs []scenario
	anyFault := false
	for i, c := range hist {
		if c.sub != "" {
			f.MkdirAll("/work" + c.sub)
			f.MkdirAll("/mnt2" + c.sub)
		}
		res := w.doCall(f, c, i == len(hist)-1)
		results = append(results, res)
		scs = append(scs, c.sc)
		if len(c.faults) > 0 {
			anyFault = true
		}
		if i < len(hist)-1 && res.ErrClass != "nil" && len(c.faults) > 0 {
			simrt.Probe("earlier_call_failed_by_fault")
		}
	}
	w.nt = true
	w.smp["history_calls"] = w.calls

	// stub fidelity: the fault-free history on the real file system
	if !anyFault && os.Getenv("FSWORLD_REALFS") != "0" {
		real, rerr := realRun(scs)
		switch {
		case rerr != nil:
			simrt.Probe("realfs_unavailable")
			simrt.Note("realfs", rerr.Error())
		default:
			ok := len(real) == len(results)
			for i := 0; ok && i < len(real); i++ {
				r, m := real[i], results[i]
				if r.ErrClass != m.ErrClass || r.SrcExists != m.SrcExists || r.SrcData != m.SrcData || r.DstData != m.DstData {
					w.sc = scs[i]
					w.violate("model-disagrees-with-real-fs", fmt.Sprintf("call %d of %d: simulated %+v, real file system %+v (a defect of the simulated file system, or behaviour that depends on what an earlier call left in the package)", i+1, len(real), m, r))
					ok = false
				}
			}
			if ok {
				simrt.Probe("traces_validated_against_real_fs")
			}
		}
	}
}

// doCall lays one call's files out, runs it under its fault plan and holds it
// to the oracle.
func (w *world) doCall(f *sos.FS, c call, last bool) result {
	s := c.sc
	w.sc = s
	o := simOps{f, c.sub}
	src, dst, steps, nSrc := build2(s)
	for _, st := range steps[:nSrc] {
		st(o)
	}
	if s.SamePair && samePairApplies(s) {
		// the earlier call on the same two path strings (fault-free)
		simrt.Probe("same_pair_history")
		f.PlanK = map[int]int{}
		before := f.Lookup(o.p(src))
		var snap0 []byte
		if before != nil {
			snap0 = append([]byte(nil), before.Data...)
		}
		_, err0 := osutil.CopyFile(o.p(src), o.p(dst))
		if after := f.Lookup(o.p(src)); before != nil && before.IsRegular() && (after == nil || !bytes.Equal(after.Data, snap0)) {
			w.violate("copy-error-source-damaged", fmt.Sprintf("the earlier CopyFile (returned %v) damaged the source", err0))
		}
		o.remove(dst)
	}
	for _, st := range steps[nSrc:] {
		st(o)
	}
	f.PlanK = map[int]int{}
	for _, fl := range c.faults {
		f.PlanK[fl.at] = fl.kind
	}
	sp, dp := o.p(src), o.p(dst)
	srcInode := f.Lookup(sp)
	var snap []byte
	if srcInode != nil {
		snap = append([]byte(nil), srcInode.Data...)
	}
	srcName, dstName := f.LookupNoFollow(sp), f.LookupNoFollow(dp)
	sameName := srcName != nil && srcName == dstName
	f.Trace = nil
	nFired := len(f.Fired)
	// "removes the source only after the destination is complete"
	f.OnCall = func(idx int, c *sos.Call) {
		if c.Op == "unlink" && c.Path == sp && srcInode != nil && srcInode.IsRegular() {
			d := f.Lookup(dp)
			if d == nil || !bytes.Equal(d.Data, snap) {
				w.violate("source-removed-before-destination-complete", fmt.Sprintf("unlink(%s) issued at call %d while the destination holds %s, source held %s", sp, idx, digest(dataOf(d)), digest(snap, true)))
			}
		}
	}
	var err error
	if s.Op == 0 {
		_, err = osutil.CopyFile(sp, dp)
	} else {
		err = osutil.MoveFile(sp, dp)
	}
	f.OnCall = nil
	f.PlanK = map[int]int{}
	for _, fired := range f.Fired[nFired:] {
		simrt.Fault("fs." + fired)
	}
	var ops []string
	for _, c := range f.Trace {
		o := c.Op
		if c.Fault != "" {
			o += "!" + c.Fault
		}
		ops = append(ops, o)
	}
	simrt.Note("result", fmt.Sprintf("%s%s err=%v trace=%s", s, c.sub, err, strings.Join(ops, ",")))

	srcAfter := f.Lookup(sp)
	dstAfter := f.Lookup(dp)
	res := result{Err: fmt.Sprint(err), ErrClass: errClass(err), SrcExists: f.LookupNoFollow(sp) != nil, SrcData: digest(dataOf(srcAfter)), DstData: digest(dataOf(dstAfter))}
	w.calls = append(w.calls, ops)
	if last {
		w.smp = map[string]any{"scenario": s.String(), "faults": f.Fired[nFired:], "calls": ops, "result": res, "earlier_calls_in_history": len(f.Fired[:nFired])}
	}

	op := []string{"CopyFile", "MoveFile"}[s.Op]
	switch {
	case srcInode != nil && !srcInode.IsRegular():
		// the source is a directory: the property speaks about files; only the
		// agreement with the real file system and "no panic" apply
	case srcInode == nil:
		if err == nil {
			w.violate("nil-for-missing-source", op+" returned nil although the source does not exist")
		}
	case err == nil && s.Op == 0:
		if dstAfter == nil || !bytes.Equal(dstAfter.Data, snap) {
			w.violate("copy-nil-destination-wrong", fmt.Sprintf("CopyFile returned nil but the destination holds %s, the source held %s", digest(dataOf(dstAfter)), digest(snap, true)))
		}
		if srcAfter == nil || !bytes.Equal(srcAfter.Data, snap) {
			w.violate("copy-nil-source-damaged", fmt.Sprintf("CopyFile returned nil but the source now holds %s, it held %s", digest(dataOf(srcAfter)), digest(snap, true)))
		}
	case err != nil && s.Op == 0:
		if srcAfter == nil || !bytes.Equal(srcAfter.Data, snap) {
			w.violate("copy-error-source-damaged", fmt.Sprintf("CopyFile returned %v and the source now holds %s, it held %s", err, digest(dataOf(srcAfter)), digest(snap, true)))
		}
	case err == nil && s.Op == 1:
		if dstAfter == nil || !bytes.Equal(dstAfter.Data, snap) {
			w.violate("move-nil-destination-wrong", fmt.Sprintf("MoveFile returned nil but the destination holds %s, the source held %s", digest(dataOf(dstAfter)), digest(snap, true)))
		}
		if res.SrcExists && !sameName {
			w.violate("move-nil-source-still-there", "MoveFile returned nil but the source name still exists")
		}
	case err != nil && s.Op == 1:
		if srcAfter == nil || !bytes.Equal(srcAfter.Data, snap) {
			w.violate("move-error-source-lost", fmt.Sprintf("MoveFile returned %v and the source now holds %s, it held %s", err, digest(dataOf(srcAfter)), digest(snap, true)))
		}
	}
	return res
}

func dataOf(n *sos.Inode) ([]byte, bool) {
	if n == nil || !n.IsRegular() {
		return nil, false
	}
	return n.Data, true
}

// ---- the real side ----

type realOps struct{ w, m string }

func (o realOps) p(p string) string {
	p = strings.Replace(p, "W/", o.w+"/", 1)
	return strings.Replace(p, "M/", o.m+"/", 1)
}
func (o realOps) write(p string, d []byte)    { must(os.WriteFile(o.p(p), d, 0644)) }
func (o realOps) mkdir(p string)              { must(os.MkdirAll(o.p(p), 0755)) }
func (o realOps) symlink(target, link string) { must(os.Symlink(o.p(target), o.p(link))) }
func (o realOps) link(a, b string)            { must(os.Link(o.p(a), o.p(b))) }
func (o realOps) remove(p string)             { os.Remove(o.p(p)) }
func (o realOps) root() string                { return o.w }
func (o realOps) root2() string               { return o.m }

func must(err error) {
	if err != nil {
		panic(err)
	}
}

// realRun executes the history in a child process (fresh package state of the
// unrewritten osutil, as every simulated run has).
func realRun(scs []scenario) ([]result, error) {
	arg, _ := json.Marshal(scs)
	self, err := os.Executable()
	if err != nil {
		return nil, err
	}
	out, err := exec.Command(self, "-realfs", string(arg)).Output()
	if err != nil {
		return nil, fmt.Errorf("real-fs child: %v", err)
	}
	var rep struct {
		Results []result `json:"results"`
		Err     string   `json:"err"`
	}
	if err := json.Unmarshal(out, &rep); err != nil {
		return nil, fmt.Errorf("real-fs child output: %v", err)
	}
	if rep.Err != "" {
		return nil, errors.New(rep.Err)
	}
	return rep.Results, nil
}

func realChild(arg string) {
	var scs []scenario
	rep := map[string]any{}
	if err := json.Unmarshal([]byte(arg), &scs); err != nil {
		rep["err"] = err.Error()
	} else if res, err := realHistory(scs); err != nil {
		rep["err"] = err.Error()
	} else {
		rep["results"] = res
	}
	json.NewEncoder(os.Stdout).Encode(rep)
}

func realHistory(scs []scenario) (out []result, err error) {
	defer func() {
		if p := recover(); p != nil {
			err = fmt.Errorf("%v", p)
		}
	}()
	wdir, e := os.MkdirTemp("", "fsworld-w-")
	if e != nil {
		return nil, e
	}
	defer os.RemoveAll(wdir)
	mbase := "/dev/shm"
	if _, e := os.Stat(mbase); e != nil {
		mbase = ""
	}
	mdir, e := os.MkdirTemp(mbase, "fsworld-m-")
	if e != nil {
		return nil, e
	}
	defer os.RemoveAll(mdir)
	diffDev := differentDevice(wdir, mdir)
	for i, s := range scs {
		if (strings.HasPrefix(dstKinds[s.DstKind], "other-mount") || strings.Contains(dstKinds[s.DstKind], "on-other-mount")) && !diffDev {
			return nil, errors.New("no second mount available")
		}
		o := realOps{filepath.Join(wdir, fmt.Sprint("c", i)), filepath.Join(mdir, fmt.Sprint("c", i))}
		must(os.MkdirAll(o.w, 0755))
		must(os.MkdirAll(o.m, 0755))
		src, dst, steps, nSrc := build2(s)
		for _, st := range steps[:nSrc] {
			st(o)
		}
		if s.SamePair && samePairApplies(s) {
			realosutil.CopyFile(o.p(src), o.p(dst))
			o.remove(dst)
		}
		for _, st := range steps[nSrc:] {
			st(o)
		}
		var rerr error
		if s.Op == 0 {
			_, rerr = realosutil.CopyFile(o.p(src), o.p(dst))
		} else {
			rerr = realosutil.MoveFile(o.p(src), o.p(dst))
		}
		rd := func(p string) ([]byte, bool) {
			b, e := os.ReadFile(p)
			return b, e == nil
		}
		_, lerr := os.Lstat(o.p(src))
		out = append(out, result{Err: fmt.Sprint(rerr), ErrClass: errClass(rerr), SrcExists: lerr == nil, SrcData: digest(rd(o.p(src))), DstData: digest(rd(o.p(dst)))})
	}
	return out, nil
}

func differentDevice(a, b string) bool {
	// rename across the two directories tells
	f := filepath.Join(a, ".probe")
	if os.WriteFile(f, nil, 0600) != nil {
		return false
	}
	defer os.Remove(f)
	err := os.Rename(f, filepath.Join(b, ".probe"))
	if err == nil {
		os.Remove(filepath.Join(b, ".probe"))
		return false
	}
	return true
}

// enumerate lists every scenario fault-free, then every single-fault
// placement in each scenario's recorded call trace.
func enumerate(prop string) [][]int {
	var out [][]int
	prefix := []int{0, 0, 0} // the simulator's own per-run knobs: simplest values
	type sc struct {
		choices []int
		calls   []string
	}
	var scs []sc
	os.Setenv("FSWORLD_REALFS", "0")
	for op := 0; op < 2; op++ {
		for size := 0; size < nEnumSizes; size++ {
			for sk := range srcKinds {
				for dk := range dstKinds {
					c := append(append([]int{}, prefix...), op, size, sk, dk)
					o := run(simrt.NewTrace(append(append([]int{}, c...), 0)), prop, false)
					var calls []string
					if m, ok := o.Sample.(map[string]any); ok {
						calls, _ = m["calls"].([]string)
					}
					scs = append(scs, sc{c, calls})
				}
			}
		}
	}
	os.Unsetenv("FSWORLD_REALFS")
	for _, s := range scs {
		out = append(out, append(append([]int{}, s.choices...), 0))
	}
	for _, s := range scs {
		for i, op := range s.calls {
			n := len(sos.Faults[op])
			if op == "write" {
				n *= 3
			}
			for k := 0; k < n; k++ {
				out = append(out, append(append([]int{}, s.choices...), 1, i, k))
			}
		}
	}
	// (b2) every scenario whose destination is a name of its own, fault-free,
	// after an earlier CopyFile of the same two path strings
	for op := 0; op < 2; op++ {
		for size := 0; size < nEnumSizes; size++ {
			for sk := range srcKinds {
				for dk := range dstKinds {
					if samePairApplies(scenario{DstKind: dk}) {
						c := append(append([]int{}, prefix...), op, size, sk, dk)
						out = append(out, append(c, 0, 0, 3))
					}
				}
			}
		}
	}
	// (c) histories of two calls: every single-fault placement in an earlier
	// CopyFile / MoveFile, followed by a fault-free call under test
	mains := [][]int{{0, 4, 0, 0}, {1, 4, 0, 12}} // CopyFile(32769 -> missing), MoveFile(32769 -> other mount)
	os.Setenv("FSWORLD_REALFS", "0")
	for pop := 0; pop < 2; pop++ {
		for ps := range preSizes {
			for pd := range preDst {
				base := append(append([]int{}, prefix...), mains[0]...)
				base = append(base, 0, 1, pop, ps, pd)
				o := run(simrt.NewTrace(append(append([]int{}, base...), 0)), prop, false)
				var calls []string
				if m, ok := o.Sample.(map[string]any); ok {
					if hc, _ := m["history_calls"].([][]string); len(hc) == 2 {
						calls = hc[0]
					}
				}
				for i, op := range calls {
					n := len(sos.Faults[op])
					if op == "write" {
						n *= 3
					}
					for k := 0; k < n; k++ {
						for _, mc := range mains {
							c := append(append([]int{}, prefix...), mc...)
							out = append(out, append(c, 0, 1, pop, ps, pd, 1, i, k))
						}
					}
				}
			}
		}
	}
	os.Unsetenv("FSWORLD_REALFS")
	return out
}
