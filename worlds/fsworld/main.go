// fsworld: util/osutil.CopyFile / MoveFile over a simulated file system (C18).
//
// Real code: util/osutil/file.go (control flow, defers, error handling) and
// io.Copy. Simulated: the file system, reached by substituting the os import
// of that one file with simgo/shim/sos.
//
// The scenario space (operation x size x source kind x destination layout) and,
// for each scenario, every single-fault placement in its recorded call trace
// are enumerated completely; two- and three-fault plans are sampled by seed.
// Every fault-free scenario is also executed by the unrewritten package on the
// real file system and must agree with the simulated run.
package main

import (
	"bytes"
	"errors"
	"fmt"
	"io/fs"
	"os"
	"path/filepath"
	"strings"

	"github.com/whoisnian/glb/util/osutil"
	realosutil "glborig/util/osutil"

	"simgo/kit"
	"simgo/shim/sos"
	"simgo/simrt"
)

func main() { kit.Main(kit.World{Name: "fsworld", Run: run, Enum: enumerate}) }

var sizes = []int{0, 1, 4095, 32768, 32769, 65536, 100000, 1 << 20, sparseSize}

// sparseSize: a source of three copy blocks whose middle block is all zeros
// (what a sparse-aware copy would skip)
const sparseSize = 98304

var srcKinds = []string{"regular", "missing", "via-symlink"}

var dstKinds = []string{
	"missing", "existing-shorter", "existing-longer", "existing-same-length", "same-path", "dot-slash-spelling", "dotdot-spelling",
	"symlink-to-source", "hardlink-of-source", "is-a-directory", "parent-missing", "parent-is-a-file",
	"other-mount-missing", "other-mount-existing", "dangling-symlink", "symlink-to-other-file", "symlink-on-other-mount-to-source",
}

type scenario struct {
	op      int // 0 CopyFile, 1 MoveFile
	size    int
	srcKind int
	dstKind int
}

func (s scenario) String() string {
	return fmt.Sprintf("%s(size=%d, src=%s, dst=%s)", []string{"CopyFile", "MoveFile"}[s.op], sizes[s.size], srcKinds[s.srcKind], dstKinds[s.dstKind])
}

func content(n int, salt byte) []byte {
	b := make([]byte, n)
	defer func() {
		if n == sparseSize && salt == 1 {
			for i := 32768; i < 65536; i++ {
				b[i] = 0
			}
		}
	}()
	x := uint32(2463534242) + uint32(salt)
	for i := range b {
		x ^= x << 13
		x ^= x >> 17
		x ^= x << 5
		b[i] = byte(x)
	}
	return b
}

// layout describes a scenario in terms both file systems understand.
type layout struct {
	srcPath, dstPath string
	mk               []func(fsys fsops)
}

type fsops interface {
	write(p string, data []byte)
	mkdir(p string)
	symlink(target, link string)
	link(oldp, newp string)
	root() string // prefix of device 1 work dir
	root2() string
}

func build(s scenario) (src, dst string, steps []func(fsops)) {
	data := content(sizes[s.size], 1)
	src = "W/src.bin"
	switch s.srcKind {
	case 0:
		steps = append(steps, func(f fsops) { f.write("W/src.bin", data) })
	case 1:
	case 2:
		steps = append(steps, func(f fsops) { f.write("W/real-src.bin", data); f.symlink("W/real-src.bin", "W/src.bin") })
	case 3:
		steps = append(steps, func(f fsops) { f.mkdir("W/src.bin") })
	}
	srcTarget := "W/src.bin"
	if s.srcKind == 2 {
		srcTarget = "W/real-src.bin"
	}
	switch dstKinds[s.dstKind] {
	case "missing":
		dst = "W/dst.bin"
	case "existing-shorter":
		dst = "W/dst.bin"
		steps = append(steps, func(f fsops) { f.write("W/dst.bin", content(sizes[s.size]/2, 2)) })
	case "existing-same-length":
		dst = "W/dst.bin"
		steps = append(steps, func(f fsops) { f.write("W/dst.bin", content(sizes[s.size], 6)) })
	case "existing-longer":
		dst = "W/dst.bin"
		steps = append(steps, func(f fsops) { f.write("W/dst.bin", content(sizes[s.size]+777, 3)) })
	case "same-path":
		dst = src
	case "dot-slash-spelling":
		dst = "W/./src.bin"
	case "dotdot-spelling":
		dst = "W/sub/../src.bin"
		steps = append(steps, func(f fsops) { f.mkdir("W/sub") })
	case "symlink-to-source":
		dst = "W/alias.bin"
		steps = append(steps, func(f fsops) { f.symlink(srcTarget, "W/alias.bin") })
	case "hardlink-of-source":
		dst = "W/hard.bin"
		if s.srcKind != 1 {
			steps = append(steps, func(f fsops) { f.link(srcTarget, "W/hard.bin") })
		}
	case "is-a-directory":
		dst = "W/adir"
		steps = append(steps, func(f fsops) { f.mkdir("W/adir") })
	case "parent-missing":
		dst = "W/nodir/dst.bin"
	case "parent-is-a-file":
		dst = "W/afile/dst.bin"
		steps = append(steps, func(f fsops) { f.write("W/afile", []byte("x")) })
	case "other-mount-missing":
		dst = "M/dst.bin"
	case "other-mount-existing":
		dst = "M/dst.bin"
		steps = append(steps, func(f fsops) { f.write("M/dst.bin", content(123, 4)) })
	case "symlink-to-other-file":
		dst = "W/link.bin"
		steps = append(steps, func(f fsops) { f.write("W/other.bin", content(321, 5)); f.symlink("W/other.bin", "W/link.bin") })
	case "symlink-on-other-mount-to-source":
		dst = "M/alias.bin"
		steps = append(steps, func(f fsops) { f.symlink(srcTarget, "M/alias.bin") })
	case "dangling-symlink":
		dst = "W/dangling.bin"
		steps = append(steps, func(f fsops) { f.symlink("W/nowhere.bin", "W/dangling.bin") })
	}
	return src, dst, steps
}

// ---- the simulated side ----

type simOps struct{ f *sos.FS }

func simPath(p string) string {
	p = strings.Replace(p, "W/", "/work/", 1)
	return strings.Replace(p, "M/", "/mnt2/", 1)
}
func (o simOps) write(p string, d []byte)    { o.f.WriteFile(simPath(p), d) }
func (o simOps) mkdir(p string)              { o.f.MkdirAll(simPath(p)) }
func (o simOps) symlink(target, link string) { o.f.SymlinkRaw(simPath(target), simPath(link)) }
func (o simOps) link(a, b string)            { o.f.LinkRaw(simPath(a), simPath(b)) }
func (o simOps) root() string                { return "/work" }
func (o simOps) root2() string               { return "/mnt2" }

type result struct {
	Err       string `json:"err"`
	ErrClass  string `json:"err_class"`
	SrcExists bool   `json:"src_name_exists"`
	SrcData   string `json:"src_content"`
	DstData   string `json:"dst_content"`
}

func errClass(err error) string {
	switch {
	case err == nil:
		return "nil"
	case errors.Is(err, fs.ErrNotExist):
		return "ENOENT"
	case errors.Is(err, fs.ErrPermission):
		return "EPERM/EACCES"
	}
	var pe *fs.PathError
	if errors.As(err, &pe) {
		return fmt.Sprint(pe.Err)
	}
	var le *os.LinkError
	if errors.As(err, &le) {
		return fmt.Sprint(le.Err)
	}
	return "other"
}

func digest(b []byte, ok bool) string {
	if !ok {
		return "(absent)"
	}
	h := uint64(14695981039346656037)
	for _, c := range b {
		h ^= uint64(c)
		h *= 1099511628211
	}
	return fmt.Sprintf("%d bytes #%016x", len(b), h)
}

type world struct {
	viol []kit.Violation
	sc   scenario
	smp  map[string]any
	nt   bool
}

func (w *world) violate(class, detail string) {
	for _, v := range w.viol {
		if v.Class == class {
			return
		}
	}
	sig := class + " " + []string{"CopyFile", "MoveFile"}[w.sc.op] + " dst=" + dstKinds[w.sc.dstKind]
	w.viol = append(w.viol, kit.Violation{Prop: "C18", Class: class, Detail: w.sc.String() + ": " + detail, Sig: sig, Seq: simrt.Seq()})
}

func run(ch simrt.Chooser, prop string, keep bool) *kit.Outcome {
	w := &world{}
	res := simrt.Run(simrt.RunConfig{KeepLog: keep, StepCap: 100000, NoRace: true}, ch, w.main)
	o := &kit.Outcome{Res: res, Viol: w.viol, Sample: w.smp, NonTrivial: w.nt}
	if res.End != "ok" {
		o.Infra = "run ended with " + res.End
	}
	for _, p := range res.Panics {
		o.Viol = append(o.Viol, kit.Violation{Prop: "C18", Class: "panic", Detail: w.sc.String() + ": " + p.Value + "\n" + p.Stack, Sig: "panic", Seq: p.Seq})
	}
	return o
}

func (w *world) main() {
	ch := simrt.Choose
	s := scenario{op: ch("sc.op", 2), size: ch("sc.size", len(sizes)), srcKind: ch("sc.src", len(srcKinds)), dstKind: ch("sc.dst", len(dstKinds))}
	w.sc = s
	nFaults := ch("faults.n", 4)
	f := sos.Reset()
	src, dst, steps := build(s)
	for _, st := range steps {
		st(simOps{f})
	}
	for i := 0; i < nFaults; i++ {
		at := ch("fault.at", 96)
		f.PlanK[at] = ch("fault.kind", 6)
	}
	sp, dp := simPath(src), simPath(dst)
	srcInode := f.Lookup(sp)
	var snap []byte
	if srcInode != nil {
		snap = append([]byte(nil), srcInode.Data...)
	}
	srcName, dstName := f.LookupNoFollow(sp), f.LookupNoFollow(dp)
	sameName := srcName != nil && srcName == dstName
	f.Trace = nil
	// "removes the source only after the destination is complete"
	f.OnCall = func(idx int, c *sos.Call) {
		if c.Op == "unlink" && c.Path == sp && srcInode != nil && srcInode.IsRegular() {
			d := f.Lookup(dp)
			if d == nil || !bytes.Equal(d.Data, snap) {
				w.violate("source-removed-before-destination-complete", fmt.Sprintf("unlink(%s) issued at call %d while the destination holds %s, source held %s", sp, idx, digest(dataOf(d)), digest(snap, true)))
			}
		}
	}
	var err error
	if s.op == 0 {
		_, err = osutil.CopyFile(sp, dp)
	} else {
		err = osutil.MoveFile(sp, dp)
	}
	f.OnCall = nil
	for _, fired := range f.Fired {
		simrt.Fault("fs." + fired)
	}
	var ops []string
	for _, c := range f.Trace {
		o := c.Op
		if c.Fault != "" {
			o += "!" + c.Fault
		}
		ops = append(ops, o)
	}
	w.nt = true
	simrt.Note("result", fmt.Sprintf("%s err=%v trace=%s", s, err, strings.Join(ops, ",")))

	srcAfter := f.Lookup(sp)
	dstAfter := f.Lookup(dp)
	res := result{Err: fmt.Sprint(err), ErrClass: errClass(err), SrcExists: f.LookupNoFollow(sp) != nil, SrcData: digest(dataOf(srcAfter)), DstData: digest(dataOf(dstAfter))}
	w.smp = map[string]any{"scenario": s.String(), "faults": f.Fired, "calls": ops, "result": res}

	op := []string{"CopyFile", "MoveFile"}[s.op]
	switch {
	case srcInode != nil && !srcInode.IsRegular():
		// the source is a directory: the property speaks about files; only the
		// agreement with the real file system (below) and "no panic" apply
	case srcInode == nil:
		if err == nil {
			w.violate("nil-for-missing-source", op+" returned nil although the source does not exist")
		}
	case err == nil && s.op == 0:
		if dstAfter == nil || !bytes.Equal(dstAfter.Data, snap) {
			w.violate("copy-nil-destination-wrong", fmt.Sprintf("CopyFile returned nil but the destination holds %s, the source held %s", digest(dataOf(dstAfter)), digest(snap, true)))
		}
		if srcAfter == nil || !bytes.Equal(srcAfter.Data, snap) {
			w.violate("copy-nil-source-damaged", fmt.Sprintf("CopyFile returned nil but the source now holds %s, it held %s", digest(dataOf(srcAfter)), digest(snap, true)))
		}
	case err != nil && s.op == 0:
		if srcAfter == nil || !bytes.Equal(srcAfter.Data, snap) {
			w.violate("copy-error-source-damaged", fmt.Sprintf("CopyFile returned %v and the source now holds %s, it held %s", err, digest(dataOf(srcAfter)), digest(snap, true)))
		}
	case err == nil && s.op == 1:
		if dstAfter == nil || !bytes.Equal(dstAfter.Data, snap) {
			w.violate("move-nil-destination-wrong", fmt.Sprintf("MoveFile returned nil but the destination holds %s, the source held %s", digest(dataOf(dstAfter)), digest(snap, true)))
		}
		if res.SrcExists && !sameName {
			w.violate("move-nil-source-still-there", "MoveFile returned nil but the source name still exists")
		}
	case err != nil && s.op == 1:
		if srcAfter == nil || !bytes.Equal(srcAfter.Data, snap) {
			w.violate("move-error-source-lost", fmt.Sprintf("MoveFile returned %v and the source now holds %s, it held %s", err, digest(dataOf(srcAfter)), digest(snap, true)))
		}
	}

	// stub fidelity: the fault-free scenario on the real file system
	if nFaults == 0 && os.Getenv("FSWORLD_REALFS") != "0" {
		real, rerr := realRun(s)
		switch {
		case rerr != nil:
			simrt.Probe("realfs_unavailable")
		case real.ErrClass != res.ErrClass || real.SrcExists != res.SrcExists || real.SrcData != res.SrcData || real.DstData != res.DstData:
			w.violate("model-disagrees-with-real-fs", fmt.Sprintf("simulated %+v, real file system %+v (this is a defect of the simulated file system, not of glb)", res, real))
		default:
			simrt.Probe("traces_validated_against_real_fs")
		}
	}
}

func dataOf(n *sos.Inode) ([]byte, bool) {
	if n == nil || !n.IsRegular() {
		return nil, false
	}
	return n.Data, true
}

// ---- the real side ----

type realOps struct{ w, m string }

func (o realOps) p(p string) string {
	p = strings.Replace(p, "W/", o.w+"/", 1)
	return strings.Replace(p, "M/", o.m+"/", 1)
}
func (o realOps) write(p string, d []byte)    { must(os.WriteFile(o.p(p), d, 0644)) }
func (o realOps) mkdir(p string)              { must(os.MkdirAll(o.p(p), 0755)) }
func (o realOps) symlink(target, link string) { must(os.Symlink(o.p(target), o.p(link))) }
func (o realOps) link(a, b string)            { must(os.Link(o.p(a), o.p(b))) }
func (o realOps) root() string                { return o.w }
func (o realOps) root2() string               { return o.m }

func must(err error) {
	if err != nil {
		panic(err)
	}
}

func realRun(s scenario) (res result, err error) {
	defer func() {
		if p := recover(); p != nil {
			err = fmt.Errorf("%v", p)
		}
	}()
	wdir, e := os.MkdirTemp("", "fsworld-w-")
	if e != nil {
		return res, e
	}
	defer os.RemoveAll(wdir)
	mbase := "/dev/shm"
	if _, e := os.Stat(mbase); e != nil {
		mbase = ""
	}
	mdir, e := os.MkdirTemp(mbase, "fsworld-m-")
	if e != nil {
		return res, e
	}
	defer os.RemoveAll(mdir)
	if strings.HasPrefix(dstKinds[s.dstKind], "other-mount") && !differentDevice(wdir, mdir) {
		return res, errors.New("no second mount available")
	}
	o := realOps{wdir, mdir}
	src, dst, steps := build(s)
	for _, st := range steps {
		st(o)
	}
	var rerr error
	if s.op == 0 {
		_, rerr = realosutil.CopyFile(o.p(src), o.p(dst))
	} else {
		rerr = realosutil.MoveFile(o.p(src), o.p(dst))
	}
	rd := func(p string) ([]byte, bool) {
		b, e := os.ReadFile(p)
		return b, e == nil
	}
	_, lerr := os.Lstat(o.p(src))
	res = result{Err: fmt.Sprint(rerr), ErrClass: errClass(rerr), SrcExists: lerr == nil, SrcData: digest(rd(o.p(src))), DstData: digest(rd(o.p(dst)))}
	return res, nil
}

func differentDevice(a, b string) bool {
	// rename across the two directories tells
	f := filepath.Join(a, ".probe")
	if os.WriteFile(f, nil, 0600) != nil {
		return false
	}
	defer os.Remove(f)
	err := os.Rename(f, filepath.Join(b, ".probe"))
	if err == nil {
		os.Remove(filepath.Join(b, ".probe"))
		return false
	}
	return true
}

// enumerate lists every scenario fault-free, then every single-fault
// placement in each scenario's recorded call trace.
func enumerate(prop string) [][]int {
	var out [][]int
	prefix := []int{0, 0, 0} // the simulator's own per-run knobs: simplest values
	type sc struct {
		choices []int
		calls   []string
	}
	var scs []sc
	os.Setenv("FSWORLD_REALFS", "0")
	for op := 0; op < 2; op++ {
		for size := range sizes {
			for sk := range srcKinds {
				for dk := range dstKinds {
					c := append(append([]int{}, prefix...), op, size, sk, dk)
					o := run(simrt.NewTrace(append(append([]int{}, c...), 0)), prop, false)
					var calls []string
					if m, ok := o.Sample.(map[string]any); ok {
						calls, _ = m["calls"].([]string)
					}
					scs = append(scs, sc{c, calls})
				}
			}
		}
	}
	os.Unsetenv("FSWORLD_REALFS")
	for _, s := range scs {
		out = append(out, append(append([]int{}, s.choices...), 0))
	}
	for _, s := range scs {
		for i, op := range s.calls {
			n := len(sos.Faults[op])
			if op == "write" {
				n *= 3
			}
			for k := 0; k < n; k++ {
				out = append(out, append(append([]int{}, s.choices...), 1, i, k))
			}
		}
	}
	return out
}
