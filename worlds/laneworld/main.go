// laneworld: tasklane under the simulator (C06, C07, C08, C14).
//
// Real code: all of tasklane/tasklane.go after the mechanical rewrite.
// Simulated: goroutine scheduling, its channels and selects, the WaitGroup,
// the atomic counter, time.After, the context; task bodies are harness code.
package main

import (
	"errors"
	"fmt"
	"reflect"
	"runtime"
	"sort"
	"strings"
	"time"

	"github.com/whoisnian/glb/tasklane"

	"simgo/kit"
	"simgo/simrt"
)

func main() { kit.Main(kit.World{Name: "laneworld", Run: run}) }

const (
	kRet = iota
	kSleep
	kPanic
	kSleepPanic
	kGate
	kGatePanic
	kPusher // a task that is itself a producer: its Start pushes a child task
)

type pval struct{ ID int }

type perr struct{ id int }

func (e *perr) Error() string { return fmt.Sprintf("perr-%d", e.id) }

type simTask struct {
	w          *world
	id         int
	kind       int
	sleep      time.Duration
	gate       *simrt.Chan[struct{}]
	pv         any
	lane       int
	pushed     bool
	pushInv    uint64
	pushRet    uint64
	pushErr    error
	returned   bool
	startCount int
	startSeq   uint64
	endSeq     uint64
	who        string
}

func (t *simTask) Start() {
	w := t.w
	t.startCount++
	t.startSeq = simrt.Note("start", fmt.Sprintf("task=%d", t.id))
	if t.startCount > 1 {
		w.violate("C06", "started-twice", fmt.Sprintf("task %d started %d times", t.id, t.startCount), "started-twice")
	}
	w.running++
	if w.running > w.lanes {
		w.violate("C08", "concurrency-bound", fmt.Sprintf("%d tasks executing with laneSize %d", w.running, w.lanes), "concurrency-bound")
	}
	if w.waitReturned {
		w.violate("C07", "start-after-wait", fmt.Sprintf("task %d started after Wait() had returned", t.id), "start-after-wait")
	}
	defer func() {
		w.running--
		t.endSeq = simrt.Note("end", fmt.Sprintf("task=%d", t.id))
	}()
	switch t.kind {
	case kRet:
	case kSleep:
		w.sleeping++
		simrt.Sleep(t.sleep)
		w.sleeping--
	case kPanic:
		w.raised = append(w.raised, t.pv)
		panic(t.pv)
	case kSleepPanic:
		w.sleeping++
		simrt.Sleep(t.sleep)
		w.sleeping--
		w.raised = append(w.raised, t.pv)
		panic(t.pv)
	case kGate:
		t.gate.Recv()
	case kGatePanic:
		t.gate.Recv()
		w.raised = append(w.raised, t.pv)
		w.gatePanics++
		panic(t.pv)
	case kPusher:
		simrt.Probe("task_pushes_a_task")
		child := w.newTask(kRet, nil)
		w.push(child, simrt.Choose("pusher.lane", w.lanes), fmt.Sprintf("task%d", t.id))
	}
}

type world struct {
	prop         string
	lanes, qsize int
	timeout      time.Duration
	viol         []kit.Violation
	tasks        []*simTask
	running      int
	cancelSeq    uint64
	ctx          simrt.Context
	lane         *tasklane.TaskLane
	waitReturned bool // some Wait() has returned
	nWaiters     int  // concurrent callers of Wait()
	nilPushed    bool // nil Tasks were pushed (their starts cannot be observed)
	sleeping     int  // tasks inside a simulated Sleep (they move when time passes)
	waitsBack    int
	waitSeq      uint64
	raised       []any
	gatePanics   int
	cfg          map[string]any
	prodDone     []bool
	inPush       int
}

func (w *world) violate(prop, class, detail, sig string) {
	for _, v := range w.viol {
		if v.Prop == prop && v.Class == class {
			return
		}
	}
	w.viol = append(w.viol, kit.Violation{Prop: prop, Class: class, Detail: detail, Sig: sig, Seq: simrt.Seq()})
}

func (w *world) newTask(kind int, gate *simrt.Chan[struct{}]) *simTask {
	t := &simTask{w: w, id: len(w.tasks), kind: kind, gate: gate}
	if kind == kSleep || kind == kSleepPanic {
		t.sleep = []time.Duration{100 * time.Microsecond, time.Millisecond, 20 * time.Millisecond}[simrt.Choose("task.sleep", 3)]
	}
	if kind == kPanic || kind == kSleepPanic || kind == kGatePanic {
		switch simrt.Choose("task.pval", 9) {
		case 0:
			t.pv = fmt.Sprintf("panic-%d", t.id)
		case 1:
			t.pv = 1000 + t.id
		case 2:
			t.pv = errors.New(fmt.Sprintf("err-%d", t.id))
		case 3:
			t.pv = pval{t.id}
		case 4:
			t.pv = &pval{t.id}
		case 5:
			t.pv = error(&perr{t.id})
		case 6: // values of uncomparable dynamic type
			t.pv = []int{t.id, 6}
		case 7:
			t.pv = map[string]int{"task": t.id}
		case 8:
			t.pv = struct {
				ID   int
				Tags []string
			}{t.id, []string{"x"}}
		}
	}
	w.tasks = append(w.tasks, t)
	return t
}

// foreignCtx is a Context implementation of the caller's own (same Done
// channel, same error, no values): legal for tasklane.New, opaque to WithCancel.
type foreignCtx struct{ inner simrt.Context }

func (f foreignCtx) Deadline() (time.Time, bool) { return f.inner.Deadline() }
func (f foreignCtx) Done() *simrt.Chan[struct{}] { return f.inner.Done() }
func (f foreignCtx) Err() error                  { return f.inner.Err() }
func (f foreignCtx) Value(any) any               { return nil }

func (w *world) live() bool { return w.cancelSeq == 0 }

// push calls PushTask and records the call in the ledger.
func (w *world) push(t *simTask, laneIdx int, who string) error {
	t.lane = laneIdx
	t.who = who
	t.pushed = true
	t.pushInv = simrt.Note("push", fmt.Sprintf("task=%d lane=%d by=%s", t.id, laneIdx, who))
	afterCancel := w.cancelSeq != 0 && t.pushInv > w.cancelSeq
	w.inPush++
	err := w.lane.PushTask(t, laneIdx)
	w.inPush--
	t.pushErr = err
	t.returned = true
	t.pushRet = simrt.Note("pushed", fmt.Sprintf("task=%d err=%v", t.id, err))
	switch {
	case err == nil:
	case errors.Is(err, tasklane.ErrTimeout):
		simrt.Probe("push_timeout_fired")
	case errors.Is(err, simrt.Canceled), errors.Is(err, simrt.DeadlineExceeded):
		simrt.Probe("push_ctx_error")
	default:
		w.violate("C06", "unexpected-push-error", fmt.Sprintf("PushTask returned %v", err), "unexpected-push-error")
	}
	if afterCancel {
		want := w.ctx.Err()
		if err == nil || !errors.Is(err, want) {
			w.violate("C07", "push-after-cancel", fmt.Sprintf("PushTask begun after the context was done returned %v, want %v", err, want), "push-after-cancel")
		}
	}
	return err
}

func run(ch simrt.Chooser, prop string, keep bool) *kit.Outcome {
	w := &world{prop: prop, cfg: map[string]any{}}
	res := simrt.Run(simrt.RunConfig{KeepLog: keep, StepCap: 100000}, ch, w.main)
	o := &kit.Outcome{Res: res, Viol: w.viol}
	if res.End == "stepcap" {
		// a goroutine that never parks (busy polling) keeps the simulation from
		// settling although it may well make progress in a real execution: that is
		// not decidable here, so it is infrastructure trouble, never a verdict
		o.Infra = "step cap reached: " + strings.Join(res.Blocked, "; ")
	}
	if res.End == "deadlock" {
		o.Infra = "harness deadlock: " + strings.Join(res.Blocked, "; ")
	}
	for _, r := range res.Races {
		sites := []string{r.Site1, r.Site2}
		sort.Strings(sites)
		o.Viol = append(o.Viol, kit.Violation{Prop: "C14", Class: "data-race", Detail: r.String(), Sig: "data-race " + sites[0] + " " + sites[1], Seq: r.Seq})
	}
	for _, p := range res.Panics {
		prop := "C06"
		if strings.HasPrefix(p.Name, "tasklane/") {
			prop = "C14"
		}
		o.Viol = append(o.Viol, kit.Violation{Prop: prop, Class: "panic-escaped", Detail: p.Name + ": " + p.Value + "\n" + p.Stack, Sig: "panic-escaped", Seq: p.Seq})
	}
	o.Sample = w.sample()
	return o
}

func (w *world) sample() any {
	type tk struct {
		ID      int    `json:"task"`
		Kind    int    `json:"kind"`
		Lane    int    `json:"lane"`
		By      string `json:"by"`
		Err     string `json:"push_err"`
		Started int    `json:"started"`
	}
	var ts []tk
	for _, t := range w.tasks {
		if !t.pushed {
			continue
		}
		e := "<nil>"
		if t.pushErr != nil {
			e = t.pushErr.Error()
		}
		if !t.returned {
			e = "(never returned)"
		}
		ts = append(ts, tk{t.id, t.kind, t.lane, t.who, e, t.startCount})
	}
	return map[string]any{"config": w.cfg, "tasks": ts, "cancel_seq": w.cancelSeq, "wait_seq": w.waitSeq}
}

func (w *world) main() {
	ch := simrt.Choose
	// one configuration in twelve has 34 lanes, one in twenty-four 70: more than a machine
	// word of either size has bits (whatever is kept per lane in a bit set or a small table)
	w.lanes = []int{1, 2, 3, 4, 6, 5}[ch("cfg.lanes", 6)]
	switch wide := ch("cfg.wide", 24*kit.Rarity()); wide {
	case 0, 1:
		w.lanes = 34
	case 2:
		w.lanes = 70
	}
	w.qsize = []int{0, 1, 2, 3, 5}[ch("cfg.qsize", 5)]
	// 0 and negative: a push that cannot wait at all (time.After fires at once)
	w.timeout = []time.Duration{time.Millisecond, 10 * time.Millisecond, time.Second, 0, -time.Second}[ch("cfg.timeout", 5)]
	if w.timeout <= 0 {
		simrt.Probe("non_positive_push_timeout")
	}
	ctxKind := ch("cfg.ctx", 6) // 0,1 live; 2 cancelled mid-run; 3 deadline; 4 already cancelled; 5 expired deadline / dead parent
	// a long history first (rare): thousands of trivial tasks through a single
	// worker before anything else happens - whatever a worker does every so many
	// tasks (re-spawn, reset, sample) happens here
	longHistory := 0
	switch h := ch("cfg.long_history", 3000*kit.Rarity()); {
	case h >= 1 && h < 25:
		longHistory = 4200
	case h == 25:
		longHistory = 66000
	}
	if longHistory > 0 && ctxKind <= 2 {
		w.lanes = 1
		w.timeout = time.Second
		simrt.RaiseStepCap(40*longHistory + 100000)
	} else {
		longHistory = 0
	}
	producers := 1 + ch("cfg.producers", 3)
	perProd := ch("cfg.tasks", 6)
	policy := ch("cfg.policy", 4)
	pinned := ch("cfg.pinned", w.lanes+1)
	if w.lanes > 8 {
		simrt.Probe("many_lanes")
		pinned = []int{w.lanes, 0, w.lanes - 1, w.lanes}[pinned%4]
	}
	w.nWaiters = 1 + ch("cfg.waiters", 3)
	pollers := ch("cfg.pollers", 3)
	waiterEarly := ch("cfg.waiter_early", 2) == 1
	cancelFirst := ch("cfg.cancel_before_gates", 2) == 1
	panicky := ch("cfg.panicky", 3) // 0 none, 1 some, 2 many
	w.cfg = map[string]any{"lanes": w.lanes, "qsize": w.qsize, "timeout": w.timeout.String(), "ctx": ctxKind, "producers": producers,
		"tasks_per_producer": perProd, "policy": policy, "pinned": pinned, "pollers": pollers, "waiter_early": waiterEarly,
		"cancel_before_gates": cancelFirst, "panicky": panicky}

	var cancel simrt.CancelFunc
	var longDeadline time.Duration
	switch ctxKind {
	case 0, 1, 2:
		w.ctx, cancel = simrt.WithCancel(simrt.Background())
	case 3:
		d := []time.Duration{200 * time.Microsecond, 2 * time.Millisecond, 15 * time.Millisecond, 300 * time.Millisecond, 2500 * time.Millisecond}[ch("ctx.deadline", 5)]
		if d > time.Second {
			// a deadline far enough away for the whole load to be served first:
			// the run then waits until 300 ms before it and opens the gates there
			simrt.Probe("long_deadline")
			longDeadline = d
			if w.timeout > 10*time.Millisecond {
				w.timeout = 10 * time.Millisecond // every push is over long before the gates open
			}
		}
		w.ctx, cancel = simrt.WithTimeout(simrt.Background(), d)
	case 4:
		w.ctx, cancel = simrt.WithCancel(simrt.Background())
		cancel()
	case 5:
		if ch("ctx.dead", 2) == 0 {
			w.ctx, cancel = simrt.WithDeadline(simrt.Background(), simrt.Now().Add(-time.Second))
		} else {
			p, pc := simrt.WithCancel(simrt.Background())
			pc()
			w.ctx, cancel = simrt.WithCancel(p)
		}
	}
	if ch("cfg.foreign_ctx", 4) == 0 {
		// the caller's own Context implementation: nothing derived from it can
		// be cancelled in the same step, package context has to watch its Done
		w.ctx = foreignCtx{w.ctx}
		w.cfg["foreign_ctx"] = true
		simrt.Probe("foreign_context")
	}
	simrt.GoNamed("watcher", "harness", func() {
		w.ctx.Done().Recv()
		if w.cancelSeq == 0 {
			w.cancelSeq = simrt.Note("cancel-observed", "")
		}
	})
	if ctxKind >= 4 {
		simrt.Quiesce()
	}
	w.lane = tasklane.New(w.ctx, w.lanes, w.qsize)
	w.lane.SetTimeout(w.timeout)
	if st := w.lane.Status(); st.LaneSize != w.lanes || st.QueueSize != w.qsize {
		w.violate("C14", "status-config", fmt.Sprintf("Status reports %d/%d for %d/%d", st.LaneSize, st.QueueSize, w.lanes, w.qsize), "status-config")
	}

	if waiterEarly {
		w.startWaiter()
	}

	if longHistory > 0 && w.live() {
		simrt.Probe("long_history")
		var hist []*simTask
		for i := 0; i < longHistory && w.live(); i++ {
			t := w.newTask(kRet, nil)
			hist = append(hist, t)
			w.push(t, 0, "main-history")
		}
		simrt.Settle()
		if w.live() {
			for _, t := range hist {
				if t.pushErr == nil && t.startCount != 1 {
					w.violate("C06", "accepted-never-started", fmt.Sprintf("task %d of a history of %d trivial tasks on one lane was accepted and started %d times", t.id, longHistory, t.startCount), "accepted-never-started")
					break
				}
			}
		}
	}

	// phase B: pin workers with gated tasks, one per lane
	gate := simrt.MakeChan[struct{}](0)
	var pins []*simTask
	for k := 0; k < pinned; k++ {
		kind := kGate
		if panicky > 0 && ch("pin.panics", 2) == 1 {
			kind = kGatePanic
		}
		t := w.newTask(kind, gate)
		pins = append(pins, t)
		w.push(t, k, "main")
	}
	simrt.Quiesce()
	if w.live() {
		for _, t := range pins {
			if t.pushErr == nil && t.startCount == 0 {
				// both "eventually started" (C06) and "started as soon as any worker is idle" (C08)
				w.violate("C06", "accepted-not-started", fmt.Sprintf("gated task %d accepted on lane %d not started although all workers were idle", t.id, t.lane), "accepted-not-started idle")
				w.violate("C08", "head-of-line", fmt.Sprintf("gated task %d accepted on lane %d is not started although workers are idle (%d of %d busy)", t.id, t.lane, w.running, w.lanes), "head-of-line")
			}
		}
	}

	// phase C: load
	w.prodDone = make([]bool, producers)
	var load []*simTask
	for p := 0; p < producers; p++ {
		p := p
		var mine []*simTask
		var lanesFor []int
		for i := 0; i < perProd; i++ {
			kind := kRet
			switch {
			case panicky == 2:
				kind = []int{kPanic, kSleepPanic, kRet, kPanic}[ch("task.kind", 4)]
			case panicky == 1:
				kind = []int{kRet, kSleep, kPanic, kSleepPanic}[ch("task.kind", 4)]
			default:
				kind = []int{kRet, kSleep, kPusher}[ch("task.kind", 3)]
			}
			t := w.newTask(kind, nil)
			mine = append(mine, t)
			load = append(load, t)
			switch policy {
			case 0:
				lanesFor = append(lanesFor, 0)
			case 1:
				lanesFor = append(lanesFor, (p+i)%w.lanes)
			case 2:
				lanesFor = append(lanesFor, -1) // ShortestQueueIndex at push time
			default:
				lanesFor = append(lanesFor, ch("task.lane", w.lanes))
			}
		}
		simrt.GoNamed(fmt.Sprintf("producer%d", p), "harness", func() {
			for i, t := range mine {
				idx := lanesFor[i]
				if idx < 0 {
					idx = w.lane.ShortestQueueIndex()
					if idx < 0 || idx >= w.lanes {
						w.violate("C14", "shortest-index", fmt.Sprintf("ShortestQueueIndex() = %d", idx), "shortest-index")
						idx = 0
					}
				}
				w.push(t, idx, fmt.Sprintf("producer%d", p))
			}
			w.prodDone[p] = true
		})
	}
	bound := w.lanes * (w.qsize + 1)
	for p := 0; p < pollers; p++ {
		n := 1 + ch("poller.n", 8)
		simrt.GoNamed("poller", "harness", func() {
			for i := 0; i < n; i++ {
				st := w.lane.Status()
				if st.PendingTask < 0 || st.PendingTask > bound {
					w.violate("C14", "pending-out-of-bounds", fmt.Sprintf("PendingTask=%d outside [0,%d]", st.PendingTask, bound), "pending-out-of-bounds")
				}
				simrt.Yield("poller")
			}
		})
	}
	if ctxKind == 2 {
		k := ch("cancel.after", 60)
		simrt.GoNamed("canceller", "harness", func() {
			for i := 0; i < k; i++ {
				simrt.Yield("canceller")
			}
			if w.inPush > 0 {
				simrt.Probe("cancel_while_push_in_flight")
			}
			w.crashPointProbes()
			simrt.Fault("ctx.cancel_midrun")
			blocked := w.inPush
			cancel()
			// released by the cancellation itself, not by waiting out the push
			// timeout: at the next quiescence (no timer advanced) nobody is
			// inside PushTask any more
			simrt.Quiesce()
			if w.inPush > 0 {
				w.violate("C07", "producer-not-released", fmt.Sprintf("%d producer(s) still blocked in PushTask after the context was cancelled and everything else came to rest (only the push timeout can release them now)", w.inPush), "producer-not-released")
			} else if blocked > 0 {
				simrt.Probe("blocked_producers_released_by_cancel")
			}
		})
	}
	// C08 while producers are still inside PushTask: everything has come to rest
	// without any timer advancing (push timeouts, sleeping tasks and deadlines
	// are still ahead). If a worker has nothing to do now, no task may be
	// waiting for one - neither in a lane nor in the hands of a blocked producer.
	simrt.Quiesce()
	if w.live() && w.running < w.lanes && w.inPush > 0 {
		simrt.Probe("hol_checked")
		w.violate("C08", "head-of-line", fmt.Sprintf("%d producer(s) wait inside PushTask for room although only %d of %d workers are busy and nothing else can move", w.inPush, w.running, w.lanes), "head-of-line blocked-push")
	} else if w.live() && w.inPush > 0 {
		simrt.Probe("blocked_push_with_all_workers_busy")
	}
	if longDeadline > 0 {
		// every push timeout and every sleeping task is over well before this
		simrt.Sleep(time.Duration(int64(longDeadline-300*time.Millisecond) - simrt.Elapsed()))
		simrt.Quiesce()
	} else {
		simrt.Settle()
	}
	if ctxKind == 3 && !w.live() {
		simrt.Fault("ctx.deadline_fired")
	}

	// every PushTask has returned by now (accepted, timed out or released); not
	// claimed in the long-deadline run, where timers are still ahead (a starved
	// producer may have begun a push only now) - the end of the run checks it
	for p, d := range w.prodDone {
		if !d && longDeadline == 0 {
			if w.live() {
				w.violate("C06", "push-never-returned", fmt.Sprintf("producer %d is still inside PushTask after every timer has fired", p), "push-never-returned")
			} else {
				w.violate("C07", "producer-not-released", fmt.Sprintf("producer %d is still blocked in PushTask after the context was cancelled", p), "producer-not-released")
			}
		}
	}
	pinnedRunning := w.running
	if w.live() {
		// C08 head-of-line: an idle worker exists, so nothing accepted may wait
		if pinnedRunning < w.lanes {
			for _, t := range w.tasks {
				if t.kind != kGate && t.kind != kGatePanic && t.returned && t.pushErr == nil && t.startCount == 0 {
					simrt.Probe("hol_checked")
					w.violate("C08", "head-of-line", fmt.Sprintf("task %d accepted on lane %d is not started while only %d of %d workers are busy", t.id, t.lane, pinnedRunning, w.lanes), "head-of-line")
					break
				}
			}
			if pinnedRunning > 0 {
				simrt.Probe("hol_state_with_pinned_workers")
			}
		}
		w.checkPending("loaded")
	}

	if cancelFirst && w.live() {
		// cancel with workers still gated and queues possibly full
		if w.pendingAccepted() > 0 {
			simrt.Probe("cancel_with_tasks_pending")
		}
		simrt.Fault("ctx.cancel_before_gates")
		cancel()
		simrt.Quiesce()
	}

	// phase F: open the gates
	gate.Close()
	if longDeadline > 0 && w.live() {
		// the context given to New is live for another 300 ms: 200 ms after the gates
		// opened (sleeping tasks take 20 ms at most) and with everything at rest
		// again, every accepted task has been started
		simrt.Sleep(200 * time.Millisecond)
		simrt.Quiesce()
		// (the simulator may have let that timer fire while tasks were still
		// runnable - a slow machine - so a sleeping task can still occupy a
		// worker; the claim is only made when no task is executing at all)
		if w.live() && w.running == 0 {
			simrt.Probe("long_deadline_checked")
			for _, t := range w.tasks {
				if t.returned && t.pushErr == nil && t.startCount != 1 {
					w.violate("C06", "accepted-never-started", fmt.Sprintf("task %d accepted on lane %d started %d times although no task is executing, nothing else can move and the context (deadline %v) is still live", t.id, t.lane, t.startCount, longDeadline), "accepted-never-started")
					break
				}
			}
		}
	}
	simrt.Settle()
	if w.gatePanics >= 2 {
		simrt.Probe("concurrent_recover_2plus")
	}
	if w.live() {
		for _, t := range w.tasks {
			if t.returned && t.pushErr == nil && t.startCount != 1 {
				w.violate("C06", "accepted-never-started", fmt.Sprintf("task %d accepted on lane %d started %d times after all running tasks returned", t.id, t.lane, t.startCount), "accepted-never-started")
				break
			}
		}
		// a nil Task is a legal argument: starting it panics (nil interface) inside
		// the worker, like any other panicking task
		if panicky > 0 && ch("nil.tasks", 3) == 0 {
			simrt.Probe("nil_task_pushed")
			w.nilPushed = true
			for k := 0; k < w.lanes && k < 6; k++ {
				if w.lane.PushTask(nil, k) == nil {
					w.raised = append(w.raised, nilTaskPanic{})
				}
			}
			simrt.Settle()
		}
		w.checkPending("drained")
		// C14 head count after the panics: every worker must still be there
		gate2 := simrt.MakeChan[struct{}](0)
		ok := true
		for k := 0; k < w.lanes && w.live(); k++ {
			t := w.newTask(kGate, gate2)
			if w.push(t, k, "main") != nil {
				ok = false
			}
		}
		simrt.Quiesce()
		if ok && w.live() {
			simrt.Probe("headcount_checked")
			if w.running != w.lanes {
				w.violate("C14", "worker-lost", fmt.Sprintf("%d gated tasks on %d lanes but only %d run at once after %d panics", w.lanes, w.lanes, w.running, len(w.raised)), "worker-lost")
			}
		}
		gate2.Close()
		simrt.Settle()
	}
	w.checkLastPanic()

	// phase G: shutdown
	if w.live() {
		simrt.Fault("ctx.cancel_at_end")
		cancel()
		// cancel() has returned: the context given to New is done from here on
		if w.cancelSeq == 0 {
			w.cancelSeq = simrt.Note("cancel-returned", "")
		}
		if ch("late.prompt", 2) == 0 {
			// a push straight away, nothing has come to rest in between: whatever
			// the lane derived from that context for itself may not have heard yet
			simrt.Probe("push_right_after_cancel")
			t := w.newTask(kRet, nil)
			w.push(t, ch("late.lane", w.lanes), "main-prompt")
		}
	}
	simrt.Quiesce()
	if w.cancelSeq == 0 {
		w.violate("C07", "harness", "context cancelled but watcher did not observe it", "harness")
	}
	for i := 0; i < 2; i++ {
		t := w.newTask(kRet, nil)
		w.push(t, ch("late.lane", w.lanes), "main-late")
	}
	if !waiterEarly {
		w.startWaiter()
	}
	simrt.Settle()
	if w.waitsBack != w.nWaiters {
		w.violate("C07", "wait-did-not-return", fmt.Sprintf("%d of %d concurrent Wait() calls have not returned although every started task has returned (running=%d, pending accepted=%d)", w.nWaiters-w.waitsBack, w.nWaiters, w.running, w.pendingAccepted()), "wait-did-not-return")
	}
	for _, ti := range simrt.Tasks() {
		if strings.HasPrefix(ti.Site, "tasklane/") && !ti.Done {
			w.violate("C07", "goroutine-left", fmt.Sprintf("goroutine started at %s is still alive after shutdown, blocked at %s", ti.Site, ti.Blocked), "goroutine-left")
			break
		}
	}
	// ledger: nothing rejected ever ran, nothing ran twice
	for _, t := range w.tasks {
		if t.returned && t.pushErr != nil && t.startCount > 0 {
			w.violate("C06", "rejected-task-started", fmt.Sprintf("task %d was started although PushTask returned %v", t.id, t.pushErr), "rejected-task-started")
		}
		if t.pushed && !t.returned {
			w.violate("C07", "producer-not-released", fmt.Sprintf("PushTask for task %d never returned", t.id), "producer-not-released")
		}
	}
	w.checkLastPanic()
	// after shutdown everything is at rest for good: the pending count still
	// equals the tasks that were accepted and never started (those left in the
	// buffers and those a queue goroutine was holding when it went away)
	if w.waitsBack == w.nWaiters && !w.nilPushed {
		st := w.lane.Status()
		if want := w.pendingAccepted(); st.PendingTask != want {
			w.violate("C14", "pending-count", fmt.Sprintf("at rest (after shutdown): PendingTask=%d, accepted-but-never-started=%d", st.PendingTask, want), "pending-count after-shutdown")
		} else if want > 0 {
			simrt.Probe("pending_exact_after_shutdown")
		}
	}
}

// crashPointProbes records in which protocol states the cancellation lands
// (reach measurement only; no oracle depends on it).
func (w *world) crashPointProbes() {
	for _, t := range simrt.Tasks() {
		if t.Done {
			continue
		}
		lane := strings.HasPrefix(t.Site, "tasklane/")
		switch {
		case lane && t.Sends > 0 && !t.Enabled:
			simrt.Probe("cancel_with_queue_goroutine_blocked_in_handover")
		case lane && t.Sends > 0:
			simrt.Probe("cancel_with_queue_goroutine_about_to_hand_over")
		case lane && t.Recvs >= 3 && t.Sends == 0 && !t.Enabled:
			simrt.Probe("cancel_with_worker_idle")
		case lane && t.Recvs == 2 && t.Sends == 0 && !t.Enabled:
			simrt.Probe("cancel_with_queue_goroutine_idle")
		case strings.HasPrefix(t.Name, "producer") && t.Sends > 0 && !t.Enabled:
			simrt.Probe("cancel_with_producer_blocked_on_full_lane")
		case strings.HasPrefix(t.Name, "producer") && t.Sends > 0:
			simrt.Probe("cancel_with_producer_about_to_enqueue")
		}
	}
	if w.running > 0 {
		simrt.Probe("cancel_with_worker_mid_task")
	}
}

func (w *world) startWaiter() {
	if w.nWaiters > 1 {
		simrt.Probe("concurrent_waiters")
	}
	for i := 0; i < w.nWaiters; i++ {
		simrt.GoNamed(fmt.Sprint("waiter", i), "harness", func() {
			w.lane.Wait()
			seq := simrt.Note("wait-returned", "")
			if !w.waitReturned {
				w.waitSeq = seq
			}
			w.waitReturned = true
			w.waitsBack++
			if w.running != 0 {
				w.violate("C07", "wait-before-tasks-returned", fmt.Sprintf("Wait() returned while %d started tasks were still running", w.running), "wait-before-tasks-returned")
			}
		})
	}
}

// samePanic compares two panic values; values of uncomparable type (slices,
// maps, structs holding them) carry the task id and are compared deeply.
// nilTaskPanic stands for the runtime error raised by starting a nil Task.
type nilTaskPanic struct{}

func samePanic(a, b any) (eq bool) {
	if _, ok := a.(nilTaskPanic); ok {
		re, isRE := b.(runtime.Error)
		return isRE && strings.Contains(re.Error(), "nil pointer")
	}
	defer func() {
		if recover() != nil {
			eq = reflect.DeepEqual(a, b)
		}
	}()
	return a == b
}

func (w *world) totalStarts() int {
	n := 0
	for _, t := range w.tasks {
		n += t.startCount
	}
	return n
}

func (w *world) pendingAccepted() int {
	n := 0
	for _, t := range w.tasks {
		if t.returned && t.pushErr == nil && t.startCount == 0 {
			n++
		}
	}
	return n
}

func (w *world) checkPending(when string) {
	// "at rest" is sampled BEFORE Status() is called and confirmed after it:
	// Status() takes several steps, and simulated time may pass inside it
	restBefore := w.inPush == 0 && w.sleeping == 0
	startsBefore := w.totalStarts()
	st := w.lane.Status()
	if !w.live() {
		return
	}
	if !restBefore || w.totalStarts() != startsBefore || w.inPush > 0 || w.sleeping > 0 {
		// not at rest (possible at the checkpoints of the long-deadline run, which
		// follow a Quiesce with timers still ahead, not a Settle): a producer is
		// inside PushTask, or a task is asleep and will free its worker when its
		// timer fires - Status() is not atomic, the lane may move while it is read.
		// Tasks blocked on the closed gate cannot move: pinned workers are at rest.
		return
	}
	want := w.pendingAccepted()
	if want > 0 {
		simrt.Probe("pending_exact_nonzero")
	}
	if st.PendingTask != want {
		w.violate("C14", "pending-count", fmt.Sprintf("at rest (%s): PendingTask=%d, accepted-but-not-started=%d", when, st.PendingTask, want), "pending-count")
	}
}

func (w *world) checkLastPanic() {
	lp := w.lane.Status().LastPanic
	if len(w.raised) == 0 {
		if lp != nil {
			w.violate("C14", "last-panic", fmt.Sprintf("LastPanic=%v but no task panicked", lp), "last-panic")
		}
		return
	}
	for _, v := range w.raised {
		if samePanic(v, lp) {
			return
		}
	}
	w.violate("C14", "last-panic", fmt.Sprintf("LastPanic=%v is none of the %d values raised", lp, len(w.raised)), "last-panic")
}
