// filterworld: util/netutil.IPv4Filter under the simulator (C11, C12).
//
// Real code: util/netutil/filter.go (import shims for sync and sync/atomic,
// every field / element / map access instrumented in place).
// Simulated: its RWMutex and atomic flag, the client tasks.
//
// C11 is the sequential, fault-free configuration (one client, exact model
// equality after every operation); C12 is the concurrent one (writers owning
// disjoint ranges, readers, interval oracle, happens-before race detection).
package main

import (
	"encoding/binary"
	"errors"
	"fmt"
	"net"
	"sort"
	"strings"

	"github.com/whoisnian/glb/util/netutil"

	"simgo/kit"
	"simgo/simrt"
)

func main() { kit.Main(kit.World{Name: "filterworld", Run: run}) }

type prefix struct {
	ip   uint32 // as written (possibly non-canonical)
	ones int
}

func (p prefix) mask() uint32 {
	if p.ones == 0 {
		return 0
	}
	return ^uint32(0) << (32 - p.ones)
}
func (p prefix) canon() prefix        { return prefix{p.ip & p.mask(), p.ones} }
func (p prefix) covers(a uint32) bool { return a&p.mask() == p.ip&p.mask() }
func (p prefix) first() uint32        { return p.ip & p.mask() }
func (p prefix) last() uint32         { return p.ip&p.mask() | ^p.mask() }
func (p prefix) String() string       { return fmt.Sprintf("%s/%d", ip4(p.ip), p.ones) }
func ip4(a uint32) net.IP             { b := make(net.IP, 4); binary.BigEndian.PutUint32(b, a); return b }
func (p prefix) ipnet() *net.IPNet    { return &net.IPNet{IP: ip4(p.ip), Mask: net.CIDRMask(p.ones, 32)} }
func u32(a, b, c, d uint32) uint32    { return a<<24 | b<<16 | c<<8 | d }
func filler(k int) prefix             { return prefix{u32(172, uint32(16+k/256), uint32(k%256), 0), 24} }

// a small universe built to collide: nested, adjacent, extreme lengths and
// non-canonical spellings of the same network
var universe = []prefix{
	{u32(10, 0, 0, 0), 8}, {u32(10, 1, 2, 3), 8}, {u32(10, 128, 0, 0), 9}, {u32(10, 1, 0, 0), 16}, {u32(10, 2, 0, 0), 16},
	{u32(10, 1, 2, 0), 24}, {u32(10, 1, 3, 0), 24}, {u32(10, 1, 2, 77), 24}, {u32(10, 1, 2, 2), 31}, {u32(10, 1, 2, 3), 32}, {u32(10, 1, 2, 4), 32},
	{u32(0, 0, 0, 0), 1}, {u32(128, 0, 0, 0), 1}, {u32(192, 0, 0, 0), 2}, {u32(192, 168, 0, 0), 16}, {u32(192, 168, 1, 128), 25},
	{u32(192, 168, 1, 255), 32}, {u32(255, 255, 255, 255), 32}, {u32(0, 0, 0, 0), 32}, {u32(224, 0, 0, 0), 3}, {u32(10, 1, 2, 0), 23},
	{u32(0, 0, 0, 0), 0},
}

type world struct {
	prop  string
	viol  []kit.Violation
	f     *netutil.IPv4Filter
	model map[prefix]bool // canonical prefixes present (sequential model)
	hist  []string
	cfg   map[string]any
	// a caller that keeps its addresses: one net.IP per address, built once and
	// handed to every Add and Remove that names it (nil: a fresh slice per call)
	kept map[uint32]net.IP
}

// arg is the *net.IPNet handed to Add/Remove for p.
func (w *world) arg(p prefix) *net.IPNet {
	if w.kept == nil {
		return p.ipnet()
	}
	b, ok := w.kept[p.ip]
	if !ok {
		b = ip4(p.ip)
		w.kept[p.ip] = b
	}
	return &net.IPNet{IP: b, Mask: net.CIDRMask(p.ones, 32)}
}

func (w *world) violate(prop, class, detail, sig string) {
	for _, v := range w.viol {
		if v.Prop == prop && v.Class == class && v.Sig == sig {
			return
		}
	}
	w.viol = append(w.viol, kit.Violation{Prop: prop, Class: class, Detail: detail, Sig: sig, Seq: simrt.Seq()})
}

func run(ch simrt.Chooser, prop string, keep bool) *kit.Outcome {
	w := &world{prop: prop, model: map[prefix]bool{}}
	body := w.sequential
	if prop == "C12" {
		body = w.concurrent
	}
	res := simrt.Run(simrt.RunConfig{KeepLog: keep, StepCap: 400000, LatePreempt: true}, ch, body)
	o := &kit.Outcome{Res: res, Viol: w.viol}
	if res.End != "ok" {
		// a dead-lock among clients of the filter is the filter's doing
		if res.End == "deadlock" && prop == "C12" {
			o.Viol = append(o.Viol, kit.Violation{Prop: "C12", Class: "deadlock", Detail: strings.Join(res.Blocked, "; "), Sig: "deadlock"})
		} else {
			o.Infra = "run ended with " + res.End + ": " + strings.Join(res.Blocked, "; ")
		}
	}
	for _, r := range res.Races {
		s := []string{r.Site1, r.Site2}
		sort.Strings(s)
		o.Viol = append(o.Viol, kit.Violation{Prop: "C12", Class: "data-race", Detail: r.String(), Sig: "data-race " + s[0] + " " + s[1], Seq: r.Seq})
	}
	for _, p := range res.Panics {
		o.Viol = append(o.Viol, kit.Violation{Prop: prop, Class: "panic", Detail: p.Name + ": " + p.Value + "\n" + p.Stack, Sig: "panic", Seq: p.Seq})
	}
	h := w.hist
	if len(h) > 60 {
		h = append(append([]string{}, h[:20]...), append([]string{fmt.Sprintf("… %d more …", len(h)-50)}, h[len(h)-30:]...)...)
	}
	o.Sample = map[string]any{"config": w.cfg, "history": h}
	// the sequential configuration has no schedule: a run counts as
	// non-trivial when its history holds at least three operations
	o.NonTrivial = prop == "C11" && len(w.hist) >= 3
	return o
}

func (w *world) modelContains(a uint32) bool {
	for p := range w.model {
		if p.covers(a) {
			return true
		}
	}
	return false
}

func boundaries(ps []prefix) []uint32 {
	seen := map[uint32]bool{}
	var out []uint32
	add := func(a uint32) {
		if !seen[a] {
			seen[a] = true
			out = append(out, a)
		}
	}
	for _, p := range ps {
		add(p.first())
		add(p.last())
		add(p.first() - 1)
		add(p.last() + 1)
	}
	return out
}

// probe compares Contains with the model for one address in one form.
func (w *world) probe(a uint32, form16 bool, when string) {
	ip := ip4(a)
	form := "4-byte"
	if form16 {
		ip = ip.To16()
		form = "16-byte"
	}
	got := w.f.Contains(ip)
	want := w.modelContains(a)
	if got != want {
		class := "contains-false-positive"
		if want {
			class = "contains-miss"
		}
		w.violate("C11", class, fmt.Sprintf("%s: Contains(%s as %s address) = %v, model says %v; history: %s", when, ip4(a), form, got, want, strings.Join(tailOf(w.hist, 12), " ")), class+" form="+form)
	}
}

func tailOf(h []string, n int) []string {
	if len(h) > n {
		return h[len(h)-n:]
	}
	return h
}

func (w *world) add(p prefix) {
	w.hist = append(w.hist, "Add("+p.String()+")")
	if err := w.f.Add(w.arg(p)); err != nil {
		w.violate("C11", "valid-cidr-rejected", fmt.Sprintf("Add(%s) = %v", p, err), "valid-cidr-rejected")
		return
	}
	w.model[p.canon()] = true
}

func (w *world) remove(p prefix) {
	w.hist = append(w.hist, "Remove("+p.String()+")")
	if err := w.f.Remove(w.arg(p)); err != nil {
		w.violate("C11", "valid-cidr-rejected", fmt.Sprintf("Remove(%s) = %v", p, err), "valid-cidr-rejected")
		return
	}
	delete(w.model, p.canon())
}

func invalidCIDR(k int) (*net.IPNet, string) {
	switch k {
	case 0:
		_, n, _ := net.ParseCIDR("2001:db8::/32")
		return n, "IPv6 CIDR"
	case 1:
		return &net.IPNet{IP: ip4(u32(10, 0, 0, 0)), Mask: net.CIDRMask(8, 128)}, "16-byte mask"
	case 2:
		return &net.IPNet{IP: ip4(u32(10, 0, 0, 0)), Mask: net.IPMask{255, 0, 255, 0}}, "non-contiguous mask"
	case 3:
		_, n, _ := net.ParseCIDR("::/0")
		return n, "IPv6 ::/0"
	case 4:
		return &net.IPNet{IP: ip4(u32(10, 0, 0, 0)), Mask: net.IPMask{}}, "empty mask"
	case 5:
		return &net.IPNet{IP: nil, Mask: net.CIDRMask(8, 32)}, "nil IP"
	case 6:
		return &net.IPNet{IP: net.IP{10, 0, 0}, Mask: net.CIDRMask(8, 32)}, "3-byte IP"
	case 7:
		return &net.IPNet{IP: ip4(u32(10, 0, 0, 0)), Mask: net.IPMask{255, 255, 255, 255, 0}}, "5-byte mask"
	case 8:
		return &net.IPNet{IP: ip4(u32(10, 0, 0, 0)), Mask: net.IPMask{0, 0, 0, 255}}, "mask with leading zeros"
	default:
		return &net.IPNet{IP: net.ParseIP("10.0.0.0"), Mask: net.CIDRMask(104, 128)}, "16-byte IP with 16-byte mask"
	}
}

// prologue fills the filter so that the run starts near, at or beyond the
// internal list-to-map switch, with removed slots before it.
func (w *world) prologue(kind int) (fillers []prefix) {
	n := 0
	switch kind {
	case 0:
		return nil
	case 1:
		n = 246 + simrt.Choose("fill.n", 10) // the run itself crosses the switch
	case 2:
		// the list is exactly full (the first Add of the run switches, while the
		// other clients are at their first operations too) or already switched
		n = []int{256, 257, 256, 259, 256, 261}[simrt.Choose("fill.n", 6)]
	case 3:
		n = 200 + simrt.Choose("fill.n", 56)
	}
	for k := 0; k < n; k++ {
		p := filler(k)
		if err := w.f.Add(p.ipnet()); err != nil {
			w.violate("C11", "valid-cidr-rejected", fmt.Sprintf("Add(%s) = %v", p, err), "valid-cidr-rejected")
		}
		w.model[p] = true
		fillers = append(fillers, p)
	}
	w.hist = append(w.hist, fmt.Sprintf("[prologue: Add %d filler /24 ranges]", n))
	// punch holes: removed slots before the switch
	holes := simrt.Choose("fill.holes", 4)
	for h := 0; h < holes && n > 0; h++ {
		k := simrt.Choose("fill.hole_at", n)
		w.remove(filler(k))
		simrt.Probe("removed_slot_before_switch")
	}
	return fillers
}

// longHistory: a filter that lives long. Several hundred ranges of all prefix
// lengths go in (well past the list-to-map switch), most of them come out
// again - with more than a thousand Remove calls in some runs - a few of the
// survivors are removed, and more than a hundred fresh ranges follow. Whatever
// the filter does every so many operations, or when it has become small again,
// happens here. The model is compared over every touched range after each phase.
func (w *world) longHistory() []prefix {
	ch := simrt.Choose
	simrt.Probe("long_history")
	wide := func(k int) prefix {
		ones := 8 + k%25
		return prefix{u32(uint32(11+k%180), uint32(k/3%256), uint32(k*7%256), uint32(k*13%256)), ones}.canon()
	}
	var all []prefix
	sweep := func(when string) {
		for _, a := range boundaries(all) {
			w.probe(a, false, when)
		}
	}
	nA := 270 + ch("long.adds", 120)
	for k := 0; k < nA; k++ {
		p := wide(k)
		w.add(p)
		all = append(all, p)
	}
	sweep("after the first wave of adds")
	// drain to a small remainder, some ranges removed more than once
	keep := ch("long.keep", 130)
	order := make([]int, nA)
	for i := range order {
		order[i] = i
	}
	for i := len(order) - 1; i > 0; i-- {
		j := ch("long.shuffle", i+1)
		order[i], order[j] = order[j], order[i]
	}
	removes := 0
	for _, k := range order[:nA-keep] {
		w.remove(all[k])
		removes++
	}
	if ch("long.many_removes", 2) == 1 {
		for removes < 1030 {
			w.remove(all[order[ch("long.again", nA-keep)]]) // already gone: changes nothing
			removes++
		}
		simrt.Probe("over_a_thousand_removes")
	}
	sweep("after draining")
	for i := 0; i < 3 && keep > 0; i++ {
		w.remove(all[order[nA-keep+ch("long.survivor", keep)]])
	}
	sweep("after removing survivors")
	nD := 130 + ch("long.more", 60)
	for k := 0; k < nD; k++ {
		p := wide(1000 + k)
		w.add(p)
		all = append(all, p)
	}
	sweep("after the second wave of adds")
	return all[len(all)-8:]
}

func (w *world) sequential() {
	ch := simrt.Choose
	w.f = netutil.NewIPv4Filter()
	fillKind := ch("cfg.fill", 4)
	nOps := ch("cfg.ops", 40)
	w.cfg = map[string]any{"mode": "sequential", "fill": fillKind, "ops": nOps}
	if ch("cfg.caller_keeps_addresses", 3) == 0 {
		// the same net.IP slice is handed in again whenever the same address is
		// named, at whatever prefix length (10.1.2.3/8 now, 10.1.2.3/32 later)
		w.kept = map[uint32]net.IP{}
		w.cfg["caller_keeps_addresses"] = true
		simrt.Probe("caller_keeps_addresses")
	}
	fillers := w.prologue(fillKind)
	simrt.ArmPreempt()
	adds := len(fillers)
	var touched []prefix
	// a second filter lives in the same process (two instances must not share
	// anything): it holds one range and has 0.0.0.0/0 switched on and off
	other := netutil.NewIPv4Filter()
	otherRange := prefix{u32(198, 51, 100, 0), 24}
	otherAll := false
	other.Add(otherRange.ipnet())
	bystander := func(when string) {
		switch ch("other.op", 4) {
		case 0:
			other.Add((prefix{0, 0}).ipnet())
			otherAll = true
			simrt.Probe("second_filter_matches_all")
		case 1:
			other.Remove((prefix{0, 0}).ipnet())
			otherAll = false
		}
		for _, a := range []uint32{u32(198, 51, 100, 7), u32(203, 0, 113, 9), u32(10, 1, 2, 3)} {
			want := otherAll || otherRange.covers(a)
			if got := other.Contains(ip4(a)); got != want {
				w.violate("C11", "second-filter-disturbed", fmt.Sprintf("%s: a second filter in the same process (holding %s, 0.0.0.0/0 %v) answers Contains(%s) = %v, want %v", when, otherRange, otherAll, ip4(a), got, want), "second-filter-disturbed")
			}
		}
	}
	if ch("cfg.long", 40) == 39 {
		touched = w.longHistory()
		adds += 300
	}
	for i := 0; i < nOps; i++ {
		switch k := ch("op", 10); {
		case k < 4:
			p := universe[ch("op.range", len(universe))]
			w.add(p)
			adds++
			touched = append(touched, p)
			if adds == 257 {
				simrt.Probe("crossed_switch_during_run")
			}
		case k < 7:
			var p prefix
			if len(fillers) > 0 && ch("op.remove_filler", 3) == 0 {
				p = fillers[ch("op.filler", len(fillers))]
				if adds > 256 {
					simrt.Probe("remove_after_migration")
				}
			} else {
				p = universe[ch("op.range", len(universe))]
			}
			w.remove(p)
			touched = append(touched, p)
		case k < 8:
			n, what := invalidCIDR(ch("op.invalid", 10))
			w.hist = append(w.hist, "Add/Remove(<"+what+">)")
			var err error
			if ch("op.invalid_remove", 2) == 1 {
				err = w.f.Remove(n)
			} else {
				err = w.f.Add(n)
			}
			if !errors.Is(err, netutil.ErrInvalidIPv4CIDR) {
				w.violate("C11", "invalid-cidr-accepted", fmt.Sprintf("%s: got %v, want ErrInvalidIPv4CIDR", what, err), "invalid-cidr-accepted "+what)
			}
		default:
			// a filler re-added (duplicate) or a fresh one
			p := filler(ch("op.filler_any", 270))
			w.add(p)
			adds++
			touched = append(touched, p)
			if adds == 257 {
				simrt.Probe("crossed_switch_during_run")
			}
		}
		if i%3 == 0 {
			bystander(fmt.Sprintf("after op %d", i))
		}
		// probe the neighbourhood of what just changed, in both forms
		if len(touched) > 0 {
			p := touched[len(touched)-1]
			for _, a := range []uint32{p.first(), p.last(), p.first() - 1, p.last() + 1} {
				w.probe(a, ch("probe.form", 2) == 1, fmt.Sprintf("after op %d", i))
			}
		}
		// probes that are not IPv4 addresses at all: the property says nothing about
		// the answer, but nothing may crash
		if i%4 == 0 {
			for _, junk := range []net.IP{nil, {}, {1, 2, 3}, net.ParseIP("2001:db8::1"), make(net.IP, 5)} {
				w.f.Contains(junk)
			}
		}
		b := boundaries(universe)
		for j := 0; j < 3; j++ {
			w.probe(b[ch("probe.addr", len(b))], ch("probe.form", 2) == 1, fmt.Sprintf("after op %d", i))
		}
	}
	// full sweep
	set := append([]prefix{}, universe...)
	for _, p := range touched {
		set = append(set, p)
	}
	if len(fillers) > 0 {
		set = append(set, fillers[0], fillers[len(fillers)-1], fillers[len(fillers)/2])
	}
	for _, a := range boundaries(set) {
		w.probe(a, false, "final sweep")
		w.probe(a, true, "final sweep")
	}
}

// ---- concurrent configuration (C12) ----

type wop struct {
	add      bool
	p        prefix
	inv, ret uint64
}

type lookup struct {
	a        uint32
	inv, ret uint64
	got      bool
	by       int
}

func (w *world) concurrent() {
	ch := simrt.Choose
	w.f = netutil.NewIPv4Filter()
	fillKind := ch("cfg.fill", 3) // 0 list mode only, 1 crosses during the run, 2 already maps
	nWriters := 1 + ch("cfg.writers", 3)
	nReaders := 1 + ch("cfg.readers", 3)
	w.cfg = map[string]any{"mode": "concurrent", "fill": fillKind, "writers": nWriters, "readers": nReaders}
	fillers := w.prologue(fillKind)
	// history of each range: the prologue counts as an Add that returned at seq 0
	hist := map[prefix][]wop{}
	for p := range w.model {
		hist[p] = append(hist[p], wop{add: true, p: p})
	}
	simrt.ArmPreempt()

	// ranges are dealt to writers so that each range has one sequential history
	owner := func(i int) int { return i % nWriters }
	var lookups []lookup
	writersLeft := nWriters
	adds := len(fillers)
	var ownedFillers []prefix
	for wi := 0; wi < nWriters; wi++ {
		wi := wi
		var mine []prefix
		for i, p := range universe {
			if owner(i) == wi && p.canon() == p { // canonical spellings only: one owner per network
				mine = append(mine, p)
			}
		}
		// ... and a few of the prologue's ranges (entries of the list that a
		// writer may remove while another writer's Add crosses the switch)
		var myFillers []prefix
		for i := wi; i < len(fillers) && len(myFillers) < 4; i += nWriters {
			myFillers = append(myFillers, fillers[i])
		}
		ownedFillers = append(ownedFillers, myFillers...)
		n := 2 + ch("writer.ops", 14)
		simrt.GoNamed(fmt.Sprintf("writer%d", wi), "harness", func() {
			for i := 0; i < n; i++ {
				var p prefix
				switch k := ch("w.pick", 6); {
				case k == 0:
					p = filler(300 + 40*wi + ch("w.newfiller", 40)) // fresh ranges push the count over the switch
				case k == 1 && len(myFillers) > 0:
					p = myFillers[ch("w.filler", len(myFillers))]
				default:
					p = mine[ch("w.range", len(mine))]
				}
				add := ch("w.add", 3) != 0
				op := wop{add: add, p: p.canon()}
				op.inv = simrt.Stamp()
				var err error
				if add {
					err = w.f.Add(p.ipnet())
					adds++
					if adds == 257 {
						simrt.Probe("crossed_switch_while_readers_run")
					}
				} else {
					err = w.f.Remove(p.ipnet())
				}
				op.ret = simrt.Stamp()
				if err != nil {
					w.violate("C12", "valid-cidr-rejected", fmt.Sprintf("%v(%s) = %v", add, p, err), "valid-cidr-rejected")
				}
				if p.ones == 0 {
					simrt.Probe("matchall_toggled")
				}
				hist[op.p] = append(hist[op.p], op)
				w.hist = append(w.hist, fmt.Sprintf("w%d:%s(%s)@[%d,%d]", wi, map[bool]string{true: "Add", false: "Remove"}[add], p, op.inv, op.ret))
			}
			writersLeft--
		})
	}
	// another filter of the same process has 0.0.0.0/0 switched on and off
	// meanwhile (instances share nothing: this must not show in w.f's answers)
	if ch("cfg.bystander", 3) == 0 {
		simrt.Probe("second_filter_matches_all")
		other := netutil.NewIPv4Filter()
		simrt.GoNamed("bystander", "harness", func() {
			for i := 0; i < 2+ch("bystander.ops", 4); i++ {
				other.Add((prefix{0, 0}).ipnet())
				simrt.Yield("bystander")
				if ch("bystander.leave_on", 3) != 0 {
					other.Remove((prefix{0, 0}).ipnet())
				}
			}
		})
	}
	probeSet := boundaries(universe)
	if len(fillers) > 0 {
		probeSet = append(probeSet, boundaries([]prefix{fillers[0], fillers[len(fillers)-1], filler(300), filler(320), filler(340), filler(380)})...)
		probeSet = append(probeSet, boundaries(ownedFillers)...)
	}
	lastOf := make([]uint32, nReaders)
	for ri := 0; ri < nReaders; ri++ {
		ri := ri
		n := 2 + ch("reader.ops", 12)
		// a reader keeps coming back to one address (a cached answer for it must
		// not outlive an update), and looks at others in between
		hot := probeSet[ch("r.hot", len(probeSet))]
		lastOf[ri] = hot
		simrt.GoNamed(fmt.Sprintf("reader%d", ri), "harness", func() {
			for i := 0; i < n; i++ {
				a := hot
				if ch("r.other", 3) == 0 {
					a = probeSet[ch("r.addr", len(probeSet))]
				}
				lastOf[ri] = a
				l := lookup{a: a, by: ri}
				l.inv = simrt.Stamp()
				active := writersLeft > 0
				probeIP := ip4(a)
				if ch("r.form16", 3) == 0 {
					probeIP = probeIP.To16()
				}
				l.got = w.f.Contains(probeIP)
				l.ret = simrt.Stamp()
				if active && writersLeft > 0 {
					simrt.Probe("lookup_overlaps_writers")
				}
				lookups = append(lookups, l)
				w.hist = append(w.hist, fmt.Sprintf("r%d:Contains(%s)=%v@[%d,%d]", ri, ip4(a), l.got, l.inv, l.ret))
			}
		})
	}
	simrt.Settle()
	for _, t := range simrt.Tasks() {
		if !t.Done && t.ID != 0 {
			w.violate("C12", "client-stuck", fmt.Sprintf("%s is blocked at %s", t.Name, t.Blocked), "client-stuck")
		}
	}
	// interval oracle
	for _, l := range lookups {
		stable, possible := "", false
		for p, ops := range hist {
			if !p.covers(l.a) {
				continue
			}
			for i, o := range ops {
				if !o.add {
					continue
				}
				var next *wop
				for j := i + 1; j < len(ops); j++ {
					if !ops[j].add {
						next = &ops[j]
						break
					}
				}
				if o.ret < l.inv && (next == nil || next.inv > l.ret) {
					stable = p.String()
				}
				if o.inv < l.ret && (next == nil || next.ret > l.inv) {
					possible = true
				}
			}
		}
		if stable != "" && !l.got {
			w.violate("C12", "stable-range-missed", fmt.Sprintf("reader %d: Contains(%s) = false during [%d,%d] although %s was present for the whole call", l.by, ip4(l.a), l.inv, l.ret, stable), "stable-range-missed")
		}
		if !possible && l.got {
			w.violate("C12", "phantom-range", fmt.Sprintf("reader %d: Contains(%s) = true during [%d,%d] although no range covering it was present at any time during the call", l.by, ip4(l.a), l.inv, l.ret), "phantom-range")
		}
		if stable == "" && possible {
			simrt.Probe("lookup_with_either_answer_legal")
		}
	}
	// once updates stop: the set obtained by applying each writer's operations in order
	final := map[prefix]bool{}
	for p, ops := range hist {
		if ops[len(ops)-1].add {
			final[p] = true
		}
	}
	w.model = final
	// first the addresses the readers looked at last, each twice, then the rest
	finalProbes := append([]uint32{}, lastOf...)
	finalProbes = append(finalProbes, lastOf...)
	finalProbes = append(finalProbes, probeSet...)
	for _, a := range finalProbes {
		got := w.f.Contains(ip4(a))
		if want := w.modelContains(a); got != want {
			w.violate("C12", "final-state", fmt.Sprintf("after all writers finished: Contains(%s) = %v, sequential application of each writer's operations gives %v", ip4(a), got, want), "final-state")
		}
	}
}
