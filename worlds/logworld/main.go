// logworld: the logger handlers under the simulator (C02, C03).
//
// Real code: all of logger/*.go (Nano, Text, JSON handlers, Logger, buffer
// pool) and log/slog. Simulated: the sync.Mutex behind outMu, both sync.Pools,
// the clock, the caller goroutines and the destination writer (slow, short,
// failing).
//
// Oracle: differential against the same code in isolation. For every record
// the expected line is produced, after the run, by a fresh root handler with
// the same options, fresh pool buffers and nobody else around, on which only
// that logger's own chain of With/WithGroup calls is replayed.
package main

import (
	"bytes"
	"context"
	"errors"
	"fmt"
	"io"
	"log/slog"
	"math"
	"sort"
	"strings"
	"time"

	"github.com/whoisnian/glb/logger"

	"simgo/kit"
	"simgo/simrt"
)

func main() { kit.Main(kit.World{Name: "logworld", Run: run}) }

type lvScalar struct{ s string }

func (l lvScalar) LogValue() slog.Value { return slog.StringValue(l.s) }

type lvGroup struct{ a []slog.Attr }

func (l lvGroup) LogValue() slog.Value { return slog.GroupValue(l.a...) }

type plain struct {
	A int
	B string
}

var errBoom = errors.New("boom: disk on fire")
var fixedTime = time.Date(2024, 2, 29, 23, 59, 58, 123456789, time.UTC)

type world struct {
	storm  bool // all derivations are WithGroup(ga|gb) from the root
	viol   []kit.Violation
	cfg    map[string]any
	hist   []string
	nodes  []*node
	recs   []*record
	writes []*wr
	kind   int
	level  slog.Level
	color  bool
	source bool
	uniq   int
	inFl   int
	done   []bool
	// nodes are handed from the deriving task to the others through this
	// simulated mutex, as a real program would have to
	mu simrt.Mutex
}

func (w *world) pickNode(kind string) *node {
	w.mu.Lock()
	defer w.mu.Unlock()
	return w.nodes[simrt.Choose(kind, len(w.nodes))]
}

type step struct {
	group string
	attrs []slog.Attr
	args  []any // what was actually passed to With
}

type node struct {
	id    int
	chain []step
	l     *logger.Logger
}

type record struct {
	id      int
	node    *node
	level   slog.Level
	method  int
	token   string
	msgTail string // what follows the token in the message (long filler, characters needing quotes)
	attrs   []slog.Attr
	args    []any
	enabled bool
	by      string
	at      int64 // the instant the logger stamped the record with
}

type wr struct {
	task     int
	enter    uint64
	exit     uint64
	data     []byte
	fault    string
	mutated  bool
	overlaps bool
}

func (w *world) violate(props []string, class, detail string) {
	for _, p := range props {
		dup := false
		for _, v := range w.viol {
			if v.Prop == p && v.Class == class {
				dup = true
			}
		}
		if !dup {
			w.viol = append(w.viol, kit.Violation{Prop: p, Class: class, Detail: detail, Sig: class, Seq: simrt.Seq()})
		}
	}
}

// ---- destination ----

type simWriter struct{ w *world }

var errSink = errors.New("simulated destination failure")

func (sw *simWriter) Write(p []byte) (int, error) {
	w := sw.w
	rec := &wr{task: simrt.TaskID(), data: append([]byte(nil), p...)}
	rec.enter = simrt.Note("write-enter", fmt.Sprintf("%d bytes", len(p)))
	w.writes = append(w.writes, rec)
	w.inFl++
	if w.inFl > 1 {
		rec.overlaps = true
	}
	slow := simrt.Choose("sink.slow", 4)
	for i := 0; i < slow; i++ {
		simrt.Yield("sink")
	}
	if slow > 0 {
		simrt.Probe("slow_write")
	}
	n, err := len(p), error(nil)
	switch simrt.Choose("sink.fault", 12) {
	case 10:
		n, err = len(p)/2, io.ErrShortWrite
		rec.fault = "short"
		simrt.Fault("sink.short_write")
	case 11:
		n, err = 0, errSink
		rec.fault = "error"
		simrt.Fault("sink.write_error")
	}
	if !bytes.Equal(rec.data, p) {
		rec.mutated = true
	}
	w.inFl--
	rec.exit = simrt.Note("write-exit", "")
	return n, err
}

// ---- generators ----

func (w *world) token(prefix string) string {
	w.uniq++
	return fmt.Sprintf("%s%d", prefix, w.uniq)
}

func (w *world) genAttr(depth int) slog.Attr {
	ch := simrt.Choose
	key := w.token("k")
	if ch("attr.reusekey", 4) == 0 {
		key = []string{"ka", "kb", "id"}[ch("attr.keyname", 3)]
	} else if ch("attr.oddkey", 10) == 0 {
		// keys that need quoting or escaping, collide with the built-in keys or
		// contain the separator of group prefixes
		simrt.Probe("odd_key")
		key = []string{"a b", "q\"uote", "eq=ual", "dot.ted", "ключ", "new\nline", "time", "level", "msg", "tab\there", "{brace}"}[ch("attr.oddkey.name", 11)]
	}
	if ch("attr.longkey", 8) == 0 {
		// key paths longer than the handlers' scratch buffers (32 bytes)
		simrt.Probe("long_key_path")
		key += "_" + strings.Repeat("y", 20+ch("attr.longkey.n", 30))
	}
	n := 23
	if depth >= 2 {
		n = 11
	}
	switch k := ch("attr.kind", n); k {
	case 15:
		simrt.Probe("exotic_value")
		return slog.Any(key, nil)
	case 16:
		simrt.Probe("exotic_value")
		return slog.Any(key, jsonOK{w.uniq})
	case 17:
		simrt.Probe("exotic_value")
		return slog.Any(key, jsonFail{})
	case 18:
		simrt.Probe("exotic_value")
		return slog.Any(key, textOK{w.token("t")})
	case 19:
		simrt.Probe("exotic_value")
		return slog.Any(key, textFail{})
	case 20:
		simrt.Probe("exotic_value")
		return slog.Float64(key, []float64{math.NaN(), math.Inf(1), math.Copysign(0, -1)}[ch("attr.float", 3)])
	case 21:
		simrt.Probe("exotic_value")
		return slog.String(key, "")
	case 22:
		simrt.Probe("exotic_value")
		return slog.String("", "emptykey-"+w.token("e"))
	default:
		return w.genCommonAttr(k, key, depth)
	}
}

type jsonOK struct{ n int }

func (j jsonOK) MarshalJSON() ([]byte, error) {
	return []byte(fmt.Sprintf(`{"n":%d,"s":"a b"}`, j.n)), nil
}

type jsonFail struct{}

func (jsonFail) MarshalJSON() ([]byte, error) { return nil, errors.New("marshal \"failed\"\n badly") }

type textOK struct{ s string }

func (t textOK) MarshalText() ([]byte, error) { return []byte("text " + t.s + "=1"), nil }

type textFail struct{}

func (textFail) MarshalText() ([]byte, error) { return nil, errors.New("text marshal failed") }

func (w *world) genCommonAttr(k int, key string, depth int) slog.Attr {
	ch := simrt.Choose
	switch k {
	case 0:
		return slog.String(key, w.token("v"))
	case 1:
		return slog.String(key, "a b=\"c\"\n\t\\ é\u2028 "+w.token("q"))
	case 2:
		return slog.Int64(key, -int64(w.uniq)*7)
	case 3:
		return slog.Uint64(key, ^uint64(0)-uint64(w.uniq))
	case 4:
		return slog.Float64(key, 1.5+float64(w.uniq))
	case 5:
		return slog.Bool(key, w.uniq%2 == 0)
	case 6:
		return slog.Duration(key, 1500*time.Millisecond+time.Duration(w.uniq))
	case 7:
		return slog.Time(key, fixedTime)
	case 8:
		return slog.Any(key, errBoom)
	case 9:
		return slog.Any(key, logger.AnsiString{Prefix: "\x1b[31m", Value: w.token("ansi")})
	case 10:
		return slog.Any(key, plain{w.uniq, "x y"})
	case 11:
		// groups have 0..2 members: slog drops an EMPTY group from a record before
		// any handler sees it, With hands it to the handler
		return slog.Attr{Key: key, Value: slog.GroupValue(w.genMembers(depth)...)}
	case 12:
		simrt.Probe("inline_group")
		return slog.Attr{Key: "", Value: slog.GroupValue(w.genMembers(depth)...)}
	case 13:
		if ch("attr.lv", 2) == 0 {
			return slog.Any(key, lvScalar{w.token("lv")})
		}
		return slog.Any(key, lvGroup{w.genMembers(depth)})
	default:
		if ch("attr.long", 4) == 0 {
			// around the 16 KiB limit of the buffer pool, on both sides
			n := []int{17000, 9000, 12500, 14500, 15500, 16300, 33000}[ch("attr.long.n", 7)]
			if n > 16384 {
				simrt.Probe("line_over_pool_limit")
			} else {
				simrt.Probe("line_near_pool_limit")
			}
			return slog.String(key, strings.Repeat("L", n)+w.token("long"))
		}
		return slog.Any(key, []byte("bytes "+w.token("b")))
	}
}

func (w *world) genMembers(depth int) []slog.Attr {
	n := []int{1, 2, 1, 0}[simrt.Choose("attr.n", 4)]
	if n == 0 {
		simrt.Probe("empty_group")
	}
	return w.genAttrs(n, depth+1)
}

func (w *world) genAttrs(n, depth int) []slog.Attr {
	out := make([]slog.Attr, n)
	for i := range out {
		out[i] = w.genAttr(depth)
	}
	return out
}

// toArgs spells a list of attributes the way callers do: as Attr values or
// as alternating key, value pairs - and now and then with a malformed tail (a
// key without a value, a value that is neither a key nor an Attr), which means
// an attribute under "!BADKEY". It returns the arguments and what they mean.
func (w *world) toArgs(attrs []slog.Attr) ([]any, []slog.Attr) {
	var args []any
	for _, a := range attrs {
		if a.Key != "" && simrt.Choose("arg.form", 2) == 1 {
			args = append(args, a.Key, a.Value.Any())
			if a.Value.Kind() == slog.KindGroup {
				args[len(args)-1] = a.Value // a group must stay a slog.Value
			}
		} else {
			args = append(args, a)
		}
	}
	switch simrt.Choose("arg.malformed", 10) {
	case 8:
		simrt.Probe("malformed_args")
		v := w.token("dangling")
		args = append(args, v)
		attrs = append(append([]slog.Attr{}, attrs...), slog.String("!BADKEY", v))
	case 9:
		simrt.Probe("malformed_args")
		args = append(args, 4200+w.uniq)
		attrs = append(append([]slog.Attr{}, attrs...), slog.Any("!BADKEY", 4200+w.uniq))
	}
	return args, attrs
}

func (w *world) newRoot(out io.Writer) *logger.Logger {
	opts := logger.NewOptions(w.level, w.color, w.source)
	switch w.kind {
	case 0:
		return logger.New(logger.NewNanoHandler(out, opts))
	case 1:
		return logger.New(logger.NewTextHandler(out, opts))
	default:
		return logger.New(logger.NewJsonHandler(out, opts))
	}
}

func applyStep(l *logger.Logger, s step) *logger.Logger {
	if s.group != "" {
		return l.WithGroup(s.group)
	}
	return l.With(s.args...)
}

// emit sends one record through l. Every call site is used by the run and by
// the reference alike, so that source locations agree.
func emit(l *logger.Logger, r *record) {
	msg := r.token + r.msgTail
	switch r.method {
	case 0:
		switch r.level {
		case logger.LevelDebug:
			l.Debug(msg, r.args...)
		case logger.LevelInfo:
			l.Info(msg, r.args...)
		case logger.LevelWarn:
			l.Warn(msg, r.args...)
		case logger.LevelError:
			l.Error(msg, r.args...)
		default:
			l.Log(context.Background(), r.level, msg, r.args...)
		}
	case 1:
		l.LogAttrs(context.Background(), r.level, msg, r.attrs...)
	case 2:
		l.Log(context.Background(), r.level, msg, r.args...)
	case 3:
		switch r.level {
		case logger.LevelDebug:
			l.Debugf("%s", msg)
		case logger.LevelInfo:
			l.Infof("%s", msg)
		case logger.LevelWarn:
			l.Warnf("%s", msg)
		case logger.LevelError:
			l.Errorf("%s", msg)
		default:
			l.Logf(context.Background(), r.level, "%s", msg)
		}
	default:
		// Panic logs at LevelError and then panics with the message
		func() {
			defer func() {
				if simrt.Killing() {
					return // the run is being unwound: nothing was raised
				}
				if p := recover(); p != msg {
					panic(fmt.Sprintf("Logger.Panic raised %v, want %q", p, msg))
				}
			}()
			if len(r.args) == 0 {
				l.Panicf("%s", msg)
			}
			l.Panic(msg, r.args...)
		}()
	}
}

func run(ch simrt.Chooser, prop string, keep bool) *kit.Outcome {
	w := &world{}
	res := simrt.Run(simrt.RunConfig{KeepLog: keep, StepCap: 300000}, ch, w.main)
	o := &kit.Outcome{Res: res, Viol: w.viol}
	if res.End != "ok" {
		// a log call that never returns: tasks blocked for good inside the logger
		// (a lock of the package that nobody will release any more)
		inLogger := ""
		for _, b := range res.Blocked {
			if res.End == "deadlock" && strings.Contains(b, " @ logger/") {
				inLogger = b
				break
			}
		}
		if inLogger != "" {
			site := inLogger[strings.Index(inLogger, " @ ")+3:]
			for _, p := range []string{"C02", "C03"} {
				o.Viol = append(o.Viol, kit.Violation{Prop: p, Class: "log-call-never-returns", Detail: fmt.Sprintf("the run cannot go on: %d task(s) are blocked for good, among them %s (the destination has seen %d Write calls); their records never reach it", len(res.Blocked), inLogger, len(w.writes)), Sig: "log-call-never-returns " + site, Seq: simrt.Seq()})
			}
		} else {
			o.Infra = "run ended with " + res.End + ": " + strings.Join(res.Blocked, "; ")
		}
	}
	for _, r := range res.Races {
		s := []string{r.Site1, r.Site2}
		sort.Strings(s)
		for _, p := range []string{"C02", "C03"} {
			o.Viol = append(o.Viol, kit.Violation{Prop: p, Class: "data-race", Detail: r.String(), Sig: "data-race " + s[0] + " " + s[1], Seq: r.Seq})
		}
	}
	for _, p := range res.Panics {
		for _, pr := range []string{"C02", "C03"} {
			o.Viol = append(o.Viol, kit.Violation{Prop: pr, Class: "panic", Detail: p.Name + ": " + p.Value + "\n" + p.Stack, Sig: "panic", Seq: p.Seq})
		}
	}
	h := w.hist
	if len(h) > 40 {
		h = h[:40]
	}
	o.Sample = map[string]any{"config": w.cfg, "operations": h, "writes": len(w.writes)}
	return o
}

func (w *world) main() {
	ch := simrt.Choose
	w.kind = ch("cfg.handler", 3)
	w.level = []slog.Level{logger.LevelDebug, logger.LevelInfo, logger.LevelWarn, logger.LevelError, logger.LevelFatal}[ch("cfg.threshold", 5)]
	if ch("cfg.threshold.odd", 6) == 5 {
		// "all thresholds": also ones between two named levels, below the lowest
		// and above the highest (a logger that writes nothing)
		simrt.Probe("threshold_between_levels")
		w.level = []slog.Level{logger.LevelInfo + 1, logger.LevelWarn - 1, logger.LevelError + 2, logger.LevelFatal + 4, logger.LevelDebug - 3, logger.LevelFatal + 1}[ch("cfg.threshold.odd.v", 6)]
	}
	w.color = ch("cfg.color", 2) == 1
	if w.storm = ch("cfg.groupstorm", 6) == 5; w.storm {
		simrt.Probe("group_storm")
	}
	w.source = ch("cfg.source", 2) == 1
	clients := 1 + ch("cfg.clients", 4)
	pre := ch("cfg.prederived", 5)
	w.cfg = map[string]any{"handler": []string{"nano", "text", "json"}[w.kind], "threshold": int(w.level), "color": w.color, "source": w.source, "clients": clients, "prederived": pre}

	sink := &simWriter{w}
	root := &node{id: 0, l: w.newRoot(sink)}
	w.nodes = []*node{root}
	for i := 0; i < pre; i++ {
		w.derive("main")
	}
	w.done = make([]bool, clients)
	for c := 0; c < clients; c++ {
		c := c
		n := 1 + ch("client.ops", 7)
		name := fmt.Sprintf("client%d", c)
		simrt.GoNamed(name, "harness", func() {
			for i := 0; i < n; i++ {
				// the clock moves between records: by nothing, a fraction of a
				// second, seconds or an hour
				if d := []time.Duration{0, 0, 300 * time.Millisecond, 2 * time.Second, time.Hour}[ch("op.pause", 5)]; d > 0 {
					simrt.Probe("clock_moves_between_records")
					simrt.Sleep(d)
				}
				if ch("op.derive", 3) == 0 {
					w.derive(name)
				} else {
					w.log(name, w.pickNode("op.node"))
				}
			}
			w.done[c] = true
		})
	}
	simrt.Settle()
	for c, d := range w.done {
		if !d {
			w.violate([]string{"C02"}, "client-stuck", fmt.Sprintf("client %d never finished its log calls: %v", c, simrt.Tasks()))
			return
		}
	}
	// a probe record through every node of the tree, created early or late
	w.mu.Lock() // acquire what the deriving tasks published
	nodes := append([]*node{}, w.nodes...)
	w.mu.Unlock()
	for _, n := range nodes {
		w.log("main-probe", n)
	}

	// ---- oracles ----
	simrt.SetPoolFresh(true)
	defer simrt.SetPoolFresh(false)
	var expected []string
	for _, r := range w.recs {
		if !r.enabled {
			for _, x := range w.writes {
				if bytes.Contains(x.data, []byte(r.token)) {
					w.violate([]string{"C02"}, "below-threshold-written", fmt.Sprintf("record %s at level %d is below the threshold %d but reached the destination", r.token, r.level, w.level))
				}
			}
			continue
		}
		exp := w.reference(r)
		expected = append(expected, exp)
		var mine []*wr
		for _, x := range w.writes {
			if bytes.Contains(x.data, []byte(r.token)) {
				mine = append(mine, x)
			}
		}
		switch {
		case len(mine) == 0:
			w.violate([]string{"C02"}, "record-lost", fmt.Sprintf("record %s (logger %d, by %s) caused no Write", r.token, r.node.id, r.by))
		case len(mine) > 1:
			w.violate([]string{"C02"}, "record-split-or-duplicated", fmt.Sprintf("record %s appears in %d Write calls: %q", r.token, len(mine), clip(string(mine[0].data))))
		case string(mine[0].data) != exp:
			props := []string{"C02", "C03"}
			w.violate(props, "line-differs-from-isolated-replay", fmt.Sprintf("record %s through logger %d (chain %s), by %s:\n got  %q\n want %q", r.token, r.node.id, chainString(r.node.chain), r.by, clip(string(mine[0].data)), clip(exp)))
		}
		if !w.source {
			if folded, ok := w.folded(r); ok && folded != exp {
				simrt.Probe("folded_compared")
				w.violate([]string{"C03"}, "with-differs-from-call-site", fmt.Sprintf("record %s through chain %s:\n derived   %q\n call-site %q", r.token, chainString(r.node.chain), clip(exp), clip(folded)))
			} else if ok {
				simrt.Probe("folded_compared")
			}
		}
	}
	// nothing else reached the destination, every write is one expected line
	got := make([]string, len(w.writes))
	for i, x := range w.writes {
		got[i] = string(x.data)
		if x.overlaps {
			w.violate([]string{"C02"}, "writes-overlap", fmt.Sprintf("a Write by task %d began at seq %d while another Write was in progress", x.task, x.enter))
		}
		if x.mutated {
			w.violate([]string{"C02"}, "buffer-mutated-during-write", "the bytes handed to Write changed before Write returned")
		}
	}
	sort.Strings(got)
	sort.Strings(expected)
	if len(got) != len(expected) {
		w.violate([]string{"C02"}, "write-count", fmt.Sprintf("%d Write calls for %d enabled records", len(got), len(expected)))
	} else {
		for i := range got {
			if got[i] != expected[i] {
				w.violate([]string{"C02"}, "stray-write", fmt.Sprintf("the destination received %q, which is no record's line", clip(got[i])))
				break
			}
		}
	}
}

func clip(s string) string {
	if len(s) > 300 {
		return s[:150] + "…" + s[len(s)-150:]
	}
	return s
}

func chainString(c []step) string {
	var parts []string
	for _, s := range c {
		if s.group != "" {
			parts = append(parts, "WithGroup("+s.group+")")
		} else {
			var ks []string
			for _, a := range s.attrs {
				ks = append(ks, a.Key)
			}
			parts = append(parts, "With("+strings.Join(ks, ",")+")")
		}
	}
	return "root." + strings.Join(parts, ".")
}

func (w *world) derive(by string) {
	ch := simrt.Choose
	parent := w.pickNode("derive.parent")
	var s step
	if w.storm {
		// group storm: every client derives WithGroup from the SAME parent with
		// one of two names, again and again (whatever a logger remembers about
		// its latest derivations is hit from several tasks at once)
		w.mu.Lock()
		parent = w.nodes[0]
		w.mu.Unlock()
		s.group = []string{"ga", "gb"}[ch("storm.name", 2)]
	} else if k := ch("derive.kind", 8); k == 7 {
		// With() without arguments and WithGroup("") hand back the logger
		// itself: the chain does not change
		simrt.Probe("empty_derivation")
		var l2 *logger.Logger
		if ch("derive.empty", 2) == 0 {
			l2 = parent.l.With()
		} else {
			l2 = parent.l.WithGroup("")
		}
		child := &node{chain: parent.chain, l: l2}
		w.mu.Lock()
		defer w.mu.Unlock()
		if len(w.nodes) < 12 {
			child.id = len(w.nodes)
			w.hist = append(w.hist, fmt.Sprintf("%s: n%d := n%d.With()/WithGroup(\"\")", by, child.id, parent.id))
			w.nodes = append(w.nodes, child)
		}
		return
	} else if k%3 == 0 {
		s.group = w.token("g")
		if ch("derive.reusegroup", 2) == 1 {
			// the same few group names turn up again and again, at the top level,
			// after attributes and directly inside other groups
			simrt.Probe("group_name_reused")
			s.group = []string{"ga", "gb", "req"}[ch("derive.groupname", 3)]
		}
		if ch("derive.oddgroup", 12) == 0 {
			simrt.Probe("odd_key")
			s.group = []string{"a b", "q\"uote", "dot.ted", "группа", "new\nline", "msg"}[ch("derive.oddgroup.name", 6)]
		}
		if ch("derive.longgroup", 6) == 0 {
			simrt.Probe("long_key_path")
			s.group += "_" + strings.Repeat("z", 15+ch("derive.longgroup.n", 30))
		}
	} else {
		s.attrs = w.genAttrs(1+ch("derive.n", 3), 0)
		s.args, s.attrs = w.toArgs(s.attrs)
	}
	child := &node{chain: append(append([]step{}, parent.chain...), s)}
	child.l = applyStep(parent.l, s)
	w.mu.Lock()
	defer w.mu.Unlock()
	if len(w.nodes) >= 12 {
		return
	}
	w.hist = append(w.hist, fmt.Sprintf("%s: n%d := n%d.%s", by, len(w.nodes), parent.id, chainString([]step{s})[5:]))
	siblings := 0
	for _, n := range w.nodes {
		if len(n.chain) == len(child.chain) && len(parent.chain) > 0 && sameParent(n, parent) {
			siblings++
		}
	}
	if siblings >= 1 {
		simrt.Probe("siblings_of_derived_parent")
	}
	child.id = len(w.nodes)
	w.nodes = append(w.nodes, child)
}

func sameParent(n *node, parent *node) bool {
	if len(n.chain) != len(parent.chain)+1 {
		return false
	}
	for i := range parent.chain {
		if n.chain[i].group != parent.chain[i].group || len(n.chain[i].attrs) != len(parent.chain[i].attrs) {
			return false
		}
		if len(n.chain[i].attrs) > 0 && n.chain[i].attrs[0].Key != parent.chain[i].attrs[0].Key {
			return false
		}
	}
	return true
}

func (w *world) log(by string, n *node) {
	ch := simrt.Choose
	r := &record{id: len(w.recs), node: n, by: by, token: w.token("MSG") + "~"}
	switch ch("log.msg", 10) {
	case 0:
		// a long MESSAGE (not attribute): around the 16 KiB limit of the buffer
		// pool on both sides, and far beyond it
		n := []int{16300, 16400, 17000, 40000, 9000}[ch("log.msg.n", 5)]
		if n > 16384 {
			simrt.Probe("message_over_pool_limit")
		}
		if ch("log.msg.huge", 12) == 11 {
			// rarely: a line beyond a megabyte (whatever caps, chunks or samples
			// by size sits far above the buffer pool's limit)
			simrt.Probe("message_over_a_mebibyte")
			n = []int{1<<20 + 100, 3 << 20}[ch("log.msg.huge.n", 2)]
		}
		r.msgTail = strings.Repeat("M", n)
	case 1:
		simrt.Probe("message_needing_quotes")
		r.msgTail = " a b=\"c\"\n\t\\ é\u2028 end"
	}
	r.level = []slog.Level{logger.LevelDebug, logger.LevelInfo, logger.LevelWarn, logger.LevelError, logger.LevelFatal}[ch("log.level", 5)]
	r.method = ch("log.method", 5)
	if r.method == 4 {
		r.level = logger.LevelError
	}
	if r.method != 3 {
		r.attrs = w.genAttrs(ch("log.attrs", 4), 0)
		r.args, r.attrs = w.toArgs(r.attrs)
	}
	r.enabled = r.level >= w.level
	if !r.enabled {
		simrt.Probe("below_threshold")
	}
	w.recs = append(w.recs, r)
	w.hist = append(w.hist, fmt.Sprintf("%s: n%d.log(level=%d, method=%d, %s, %d attrs)", by, n.id, r.level, r.method, r.token, len(r.attrs)))
	emit(n.l, r)
	r.at = simrt.LastNow()
}

// reference: the line this record gives when logged alone.
func (w *world) reference(r *record) string {
	simrt.ResetPackages() // "built alone": no cache or pool of the run survives into the reference
	var buf bytes.Buffer
	l := w.newRoot(&buf)
	for _, s := range r.node.chain {
		l = applyStep(l, s)
	}
	simrt.SetClockOverride(r.at)
	emit(l, r)
	simrt.SetClockOverride(0)
	return buf.String()
}

// effectivelyEmpty: no attribute, or nothing but empty groups.
func effectivelyEmpty(attrs []slog.Attr) bool {
	for _, a := range attrs {
		if a.Value.Kind() != slog.KindGroup || len(a.Value.Group()) > 0 {
			return false
		}
	}
	return true
}

// folded: a fresh, underived root logging one record whose attribute list is
// the chain folded into call-site form. ok=false when some group would end up
// empty (slog drops empty groups from a record, a handler sees them in With).
func (w *world) folded(r *record) (string, bool) {
	acc := append([]slog.Attr{}, r.attrs...)
	for i := len(r.node.chain) - 1; i >= 0; i-- {
		s := r.node.chain[i]
		if s.group != "" {
			// WithGroup(g) followed by nothing (or by nothing but empty groups,
			// which slog removes when a group value is built) has no call-site
			// form: a group attribute with no members never reaches a handler
			if effectivelyEmpty(acc) {
				return "", false
			}
			acc = []slog.Attr{{Key: s.group, Value: slog.GroupValue(acc...)}}
		} else {
			acc = append(append([]slog.Attr{}, s.attrs...), acc...)
		}
	}
	if r.method == 3 {
		return "", false // Logf carries no attributes of its own; covered by the other methods
	}
	simrt.ResetPackages()
	var buf bytes.Buffer
	l := w.newRoot(&buf)
	rr := *r
	rr.attrs = acc
	rr.args = make([]any, len(acc))
	for i, a := range acc {
		rr.args[i] = a
	}
	simrt.SetClockOverride(r.at)
	emit(l, &rr)
	simrt.SetClockOverride(0)
	return buf.String(), true
}
