// progressworld: util/ioutil.ProgressWriter under the simulator (C19).
//
// Real code: util/ioutil/progress.go after the channel rewrite (the
// select-with-default send, the blocking send in Close, close).
// Simulated: the status channel, the writer task, the consumer tasks and the
// wrapped writer (short writes, failing writes, with or without WriteString).
package main

import (
	"errors"
	"fmt"
	"io"
	"sort"
	"strings"
	"time"
	"unsafe"

	"github.com/whoisnian/glb/util/ioutil"

	"simgo/kit"
	"simgo/simrt"
)

func main() { kit.Main(kit.World{Name: "progressworld", Run: run}) }

var errDisk = errors.New("simulated write error")

var hugeBuf []byte

type flaky struct {
	w     *world
	total int
}

func (f *flaky) do(n int) (int, error) {
	var got int
	var err error
	switch simrt.Choose("wr.fault", 6) {
	case 0, 1, 2:
		got = n
	case 3:
		if n > 0 {
			got = simrt.Choose("wr.short", n)
			simrt.Fault("write.short")
			err = io.ErrShortWrite
		} else {
			got = n
		}
	case 4:
		got = simrt.Choose("wr.partial", n+1)
		simrt.Fault("write.error_partial")
		err = errDisk
	case 5:
		simrt.Fault("write.error_zero")
		err = errDisk
	}
	f.total += got
	f.w.sums = append(f.w.sums, psum{f.total, simrt.Note("wrapped-write", fmt.Sprintf("n=%d/%d err=%v total=%d", got, n, err, f.total))})
	return got, err
}

func (f *flaky) Write(p []byte) (int, error) { return f.do(len(p)) }

type flakyS struct{ flaky }

func (f *flakyS) WriteString(s string) (int, error) {
	simrt.Probe("stringwriter_path")
	return f.do(len(s))
}

type psum struct {
	total int
	seq   uint64
}

type recvd struct {
	v    int
	seq  uint64
	who  int
	last bool
}

type world struct {
	viol       []kit.Violation
	sums       []psum
	got        []recvd
	closeInv   uint64
	closeRet   uint64
	writesDone bool
	cfg        map[string]any
	ops        []string
}

func (w *world) violate(class, detail string) {
	for _, v := range w.viol {
		if v.Class == class {
			return
		}
	}
	w.viol = append(w.viol, kit.Violation{Prop: "C19", Class: class, Detail: detail, Sig: class, Seq: simrt.Seq()})
}

func run(ch simrt.Chooser, prop string, keep bool) *kit.Outcome {
	w := &world{}
	res := simrt.Run(simrt.RunConfig{KeepLog: keep, StepCap: 50000}, ch, w.main)
	o := &kit.Outcome{Res: res, Viol: w.viol}
	if res.End == "stepcap" && !w.writesDone {
		// with round-robin fairness for 25 000 steps the writer still has not come
		// out of its Write calls: it is waiting (spinning) for a receiver
		o.Viol = append(o.Viol, kit.Violation{Prop: "C19", Class: "no-progress-within-bound", Detail: fmt.Sprintf("writer and consumers did not come to rest within %d scheduler steps (longest correct run: about a hundred) and the writer is still inside Write/WriteString; parked: %s", res.Steps, strings.Join(res.Blocked, "; ")), Sig: "no-progress-within-bound"})
	} else if res.End != "ok" {
		o.Infra = "run ended with " + res.End + ": " + strings.Join(res.Blocked, "; ")
	}
	for _, r := range res.Races {
		s := []string{r.Site1, r.Site2}
		sort.Strings(s)
		o.Viol = append(o.Viol, kit.Violation{Prop: "C19", Class: "data-race", Detail: r.String(), Sig: "data-race " + s[0] + " " + s[1], Seq: r.Seq})
	}
	for _, p := range res.Panics {
		o.Viol = append(o.Viol, kit.Violation{Prop: "C19", Class: "panic", Detail: p.Name + ": " + p.Value + "\n" + p.Stack, Sig: "panic", Seq: p.Seq})
	}
	o.Sample = map[string]any{"config": w.cfg, "ops": w.ops, "prefix_sums": fmt.Sprint(w.sums), "received": fmt.Sprint(w.got)}
	return o
}

func (w *world) main() {
	ch := simrt.Choose
	nOps := ch("cfg.ops", 9)
	long := false
	if ch("cfg.long", 60) == 59 {
		// rarely: more than a thousand writes in a row (whatever the writer
		// counts or samples per write reaches its threshold)
		simrt.Probe("over_a_thousand_writes")
		nOps = 1030 + ch("cfg.long.n", 300)
		simrt.RaiseStepCap(200000)
		long = true
	}
	withSW := ch("cfg.stringwriter", 2) == 1
	nCons := 1 + ch("cfg.consumers", 2)
	kinds := make([]int, nCons)
	for i := range kinds {
		kinds[i] = ch("cfg.consumer_kind", 5) // 0 absent until Close, 1 eager, 2 slow, 3 late, 4 takes a few values and walks away until Close
	}
	w.cfg = map[string]any{"ops": nOps, "stringwriter": withSW, "consumers": kinds}

	var inner io.Writer
	fl := &flaky{w: w}
	if withSW {
		inner = &flakyS{flaky{w: w}}
		fl = &inner.(*flakyS).flaky
	} else {
		inner = fl
	}
	pw := ioutil.NewProgressWriter(inner)
	closeSignal := simrt.MakeChan[struct{}](0)

	sizes := []int{0, 1, 7, 4096, 32 * 1024, 64 * 1024}
	// one run in eight moves gigabytes: the running total passes 2^31 and 2^32.
	// The buffer is one untouched (never paged in) allocation per process; the
	// wrapped writer only looks at lengths, and strings alias it.
	if long {
		sizes = []int{0, 1, 7, 1, 7, 4096}
	}
	huge := !long && ch("cfg.huge", 8) == 7
	if huge {
		simrt.Probe("total_beyond_2GiB")
		sizes = []int{1 << 30, 1<<30 + 7, 1 << 29, 64 * 1024, 1, 1<<31 - 1}
		if hugeBuf == nil {
			hugeBuf = make([]byte, 1<<31)
		}
	}
	w.cfg["huge"] = huge
	simrt.GoNamed("writer", "harness", func() {
		for i := 0; i < nOps; i++ {
			n := sizes[ch("op.size", len(sizes))]
			var got int
			var err error
			before := fl.total
			asString := ch("op.string", 2) == 1
			switch {
			case huge && asString && withSW:
				w.ops = append(w.ops, fmt.Sprintf("WriteString(%d)", n))
				got, err = pw.WriteString(unsafe.String(&hugeBuf[0], n))
			case huge:
				w.ops = append(w.ops, fmt.Sprintf("Write(%d)", n))
				got, err = pw.Write(hugeBuf[:n])
			case asString:
				w.ops = append(w.ops, fmt.Sprintf("WriteString(%d)", n))
				got, err = pw.WriteString(strings.Repeat("s", n))
			default:
				w.ops = append(w.ops, fmt.Sprintf("Write(%d)", n))
				got, err = pw.Write(make([]byte, n))
			}
			_ = err
			if got != fl.total-before {
				// not part of the property (it speaks about Size() and Status()):
				// counted, never reported
				simrt.Probe("returned_count_differs_from_wrapped_writer")
			}
			if sz := pw.Size(); sz != fl.total {
				w.violate("size-mismatch", fmt.Sprintf("after op %d (%s): Size()=%d, wrapped writer reported %d in total", i, w.ops[len(w.ops)-1], sz, fl.total))
			}
		}
		w.writesDone = true
		w.closeInv = simrt.Note("close-invoked", "")
		closeSignal.Close()
		pw.Close()
		w.closeRet = simrt.Note("close-returned", "")
		if sz := pw.Size(); sz != fl.total {
			w.violate("size-mismatch", fmt.Sprintf("after Close: Size()=%d, wrapped writer reported %d", sz, fl.total))
		}
	})
	for i, k := range kinds {
		i, k := i, k
		simrt.GoNamed(fmt.Sprintf("consumer%d", i), "harness", func() {
			switch k {
			case 0:
				closeSignal.Recv()
				simrt.Probe("consumer_absent_until_close")
				// every write has returned (ordered by the signal): the total
				// can be read from here, while Close() waits for a receiver
				if sz := pw.Size(); sz != fl.total {
					w.violate("size-mismatch", fmt.Sprintf("Size()=%d read by a consumer after the last write, wrapped writer reported %d", sz, fl.total))
				}
			case 3:
				simrt.Sleep(time.Duration(1+ch("late.ms", 5)) * time.Millisecond)
				simrt.Probe("consumer_late")
			}
			// a consumer asks for the channel when it starts consuming, which
			// for the absent and late ones is after the writing has begun
			status := pw.Status()
			quota := -1
			if k == 4 {
				quota = 1 + ch("walkaway.after", 3)
			}
			for {
				if quota == 0 {
					simrt.Probe("consumer_walked_away")
					closeSignal.Recv()
					quota = -1
				}
				// asked for again each time: it has to be the one channel
				if again := pw.Status(); again != status {
					w.violate("status-channel-changed", "Status() returned a different channel on a later call")
					status = again
				}
				v, ok := status.Recv2()
				if !ok {
					return
				}
				if quota > 0 {
					quota--
				}
				at := simrt.LastOpSeq()
				simrt.Note("received", fmt.Sprintf("v=%d by=%d at=%d", v, i, at))
				w.got = append(w.got, recvd{v: v, seq: at, who: i})
				if k == 2 {
					simrt.Probe("consumer_slow")
					simrt.Sleep(time.Millisecond)
				}
			}
		})
	}

	// Nothing in a Write may wait for a consumer: at the first quiescence (no
	// timer advanced, absent consumers not yet receiving, slow ones asleep) the
	// writer must have finished every write.
	simrt.Quiesce()
	if !w.writesDone {
		blocked := ""
		for _, t := range simrt.Tasks() {
			if t.Name == "writer" {
				blocked = t.Blocked
			}
		}
		w.violate("write-stalled", "the writer is blocked inside Write/WriteString at "+blocked+" with no consumer receiving")
	}
	simrt.Settle()
	if w.closeRet == 0 {
		if w.writesDone {
			w.violate("close-stalled", "Close() did not return although consumers are receiving")
		}
		return
	}
	final := fl.total
	// in the order in which the receives completed
	sort.SliceStable(w.got, func(i, j int) bool { return w.got[i].seq < w.got[j].seq })
	// monotone, attributable
	prev := -1
	for _, g := range w.got {
		if g.v < prev {
			w.violate("not-monotone", fmt.Sprintf("received %d after %d", g.v, prev))
		}
		prev = g.v
		ok := false
		for _, s := range w.sums {
			if s.total == g.v && s.seq < g.seq {
				ok = true
			}
		}
		if !ok && g.v == final && w.closeInv != 0 && w.closeInv < g.seq {
			ok = true // the value sent by Close with no write at all (total 0)
		}
		if !ok {
			w.violate("not-a-prefix-sum", fmt.Sprintf("received %d at seq %d, which was not the total after any write completed before (sums %v)", g.v, g.seq, w.sums))
		}
	}
	if len(w.got) == 0 || w.got[len(w.got)-1].v != final {
		w.violate("final-value", fmt.Sprintf("last value received %v, final total %d", w.got, final))
	} else if w.got[len(w.got)-1].seq > w.closeRet {
		w.violate("close-returned-early", "Close() returned before the final total was received")
	}
	if _, ok, ready := pw.Status().TryRecv(); !ready || ok {
		w.violate("not-closed", "the status channel is not closed after Close()")
	}
	for _, t := range simrt.Tasks() {
		if strings.HasPrefix(t.Name, "consumer") && !t.Done {
			w.violate("not-closed", "a consumer ranging over Status() was not released by Close()")
		}
	}
}
