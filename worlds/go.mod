module worlds

go 1.22

require (
	github.com/whoisnian/glb v0.0.0
	glborig v0.0.0
	simgo v0.0.0
)

replace simgo => /verif/simgo
