// httpworld: httpd.Mux with its pooled Store, and logger.Relay (C05, C15).
//
// Real code: httpd/*.go, logger/*.go, net/http data types, http.Error.
// Simulated: the sync.Pool behind the Store pool (the simulator decides which
// Store comes back), the atomic request counter, crypto/rand (ID prefix from
// the PRNG), the clock, caller tasks, the http.ResponseWriter and the log
// destination. Requests are delivered by calling mux.ServeHTTP from client
// tasks; there are no sockets.
package main

import (
	"bytes"
	"encoding/json"
	"errors"
	"fmt"
	"io"
	"io/fs"
	"net/http"
	"net/url"
	"regexp"
	"sort"
	"strconv"
	"strings"
	"time"

	"github.com/whoisnian/glb/httpd"
	"github.com/whoisnian/glb/logger"

	"simgo/kit"
	"simgo/simrt"
)

func main() { kit.Main(kit.World{Name: "httpworld", Run: run}) }

type route struct {
	path, method string
	names        []string
}

var routePool = []route{
	{"/u/:a/:b", "GET", []string{"a", "b"}},
	{"/v/:b", "GET", []string{"b"}},
	{"/s", "GET", nil},
	{"/", "GET", nil},
	{"/f/*", "*", []string{"*"}},
	{"/w/:c/x/:d/:e", "GET", []string{"c", "d", "e"}},
	{"/u/:x", "POST", []string{"x"}},
	{"/v/:b/t", "*", []string{"b"}},
	{"/p/:a/:c/:e/:y", "GET", []string{"a", "c", "e", "y"}},
	{"/s/deep/er", "POST", nil},
	// the same path under MethodAll and under an exact method: which of the two
	// is registered first, and whether requests were served in between, varies
	{"/s", "*", nil},
	{"/v/:b", "*", []string{"b"}},
	{"/u/:x", "*", []string{"x"}},
	// many parameters (whatever switches representation beyond a handful)
	{"/m/:a/:b/:c/:d/:e/:x/:y/:m8/:m9", "GET", []string{"a", "b", "c", "d", "e", "x", "y", "m8", "m9"}},
	{"/n/:m1/:m2/:m3/:m4/:m5/:m6/:m7/:m8/:m9/:m10/:m11/:m12/:a", "*", []string{"m1", "m2", "m3", "m4", "m5", "m6", "m7", "m8", "m9", "m10", "m11", "m12", "a"}},
}

var allNames = []string{"a", "b", "c", "d", "e", "x", "y", "unused", "m1", "m8", "m9", "m12"}

type harnessPanic struct{ token string }

// escapingPanic is raised by a handler and NOT contained by the relay: it
// unwinds through ServeHTTP (as http.ErrAbortHandler does under Logger.Relay).
type escapingPanic struct{ token string }

// claimsAll is an error whose Is method answers true for every target.
type claimsAll struct{ tok string }

func (c claimsAll) Error() string { return "claims-" + c.tok }
func (c claimsAll) Is(error) bool { return true }

type nilErr struct{ x int }

func (e *nilErr) Error() string { return fmt.Sprint("nilErr ", e.x) }

type obs struct {
	RoutePath   string            `json:"route_path"`
	RouteMethod string            `json:"route_method"`
	Params      map[string]string `json:"params"`
	Any         string            `json:"any"`
	StatusEntry int               `json:"status_at_entry"`
	IDs         []string          `json:"ids"`
	GlbPanic    string            `json:"glb_panic,omitempty"`
	Handlers    int               `json:"handlers_run"`
}

type behaviour struct {
	status   int // 0: none
	how      int // 0 WriteHeader, 1 implied by Write, 2 Respond200/Error500/http.Error helpers
	body     bool
	panicAt  int // 0 none, 1 before writing, 2 after the status, 3 after a partial body
	panicVal int
	failBody bool
	// deep: the panic is raised 300 frames down, so that the stack trace Relay
	// logs makes the Error record larger than the log buffer pool's limit
	deep bool
	// emptyFirst: the handler's first output is a zero-length Write (which
	// commits the implicit 200 on a real connection); only with status == 0
	emptyFirst bool
	// via: how bytes are handed to the response (0 Write, 1 io.Copy, 2 io.WriteString)
	via int
	// mount: the handler delegates to an inner Mux with its own writer and request
	mount bool
	// flushFirst: the handler flushes before anything else (1 Flush, 2 FlushError),
	// which commits the implicit 200; only with status == 0
	flushFirst int
}

type request struct {
	id      int
	method  string
	path    string
	nRoutes int // routes registered when it was served
	beh     behaviour
	obs     *obs
	resp    *simResponse
	escaped string // panic that left ServeHTTP
	token   string
	by      string
	tid     string
	// nested: served from inside this request's handler, on the same goroutine
	nested *request
	// inInner: the request has been handed to the mounted inner Mux (C15)
	inInner bool
}

type simResponse struct {
	hdr         http.Header
	status      int
	headerCalls int
	body        bytes.Buffer
	fail        bool
}

func (r *simResponse) Header() http.Header { return r.hdr }
func (r *simResponse) WriteHeader(code int) {
	r.headerCalls++
	if r.status == 0 {
		r.status = code
	}
}
func (r *simResponse) Write(p []byte) (int, error) {
	if r.status == 0 {
		r.status = 200
	}
	if r.fail {
		simrt.Fault("client.write_error")
		return 0, errors.New("simulated: client went away")
	}
	return r.body.Write(p)
}

// Like net/http's own response, the client side also takes whole readers and
// strings and can be flushed; each of these commits the implicit 200 header.
func (r *simResponse) ReadFrom(src io.Reader) (int64, error) {
	if r.status == 0 {
		r.status = 200
	}
	if r.fail {
		simrt.Fault("client.write_error")
		return 0, errors.New("simulated: client went away")
	}
	return r.body.ReadFrom(src)
}

func (r *simResponse) WriteString(s string) (int, error) { return r.Write([]byte(s)) }

func (r *simResponse) Flush() {
	if r.status == 0 {
		r.status = 200
	}
}

func (r *simResponse) FlushError() error { r.Flush(); return nil }

// put writes s the way the behaviour says: Write, io.Copy from a plain reader
// (which uses the writer's ReadFrom when it has one) or io.WriteString.
func put(store *httpd.Store, b behaviour, s string) {
	switch b.via {
	case 1:
		simrt.Probe("body_via_io_copy")
		io.Copy(store.W, io.LimitReader(strings.NewReader(s), int64(len(s))))
	case 2:
		io.WriteString(store.W, s)
	default:
		store.W.Write([]byte(s))
	}
}

type world struct {
	prop    string
	viol    []kit.Violation
	cfg     map[string]any
	reqs    []*request
	routes  []route
	byHdr   map[string]*request
	sink    *logSink
	hist    []string
	lkind   int
	liveMux *httpd.Mux
	inner   *httpd.Mux // mounted below handlers in C15
}

func (w *world) violate(prop, class, detail string) {
	for _, v := range w.viol {
		if v.Prop == prop && v.Class == class {
			return
		}
	}
	w.viol = append(w.viol, kit.Violation{Prop: prop, Class: class, Detail: detail, Sig: class, Seq: simrt.Seq()})
}

func run(ch simrt.Chooser, prop string, keep bool) *kit.Outcome {
	w := &world{prop: prop, byHdr: map[string]*request{}}
	body := w.mainC05
	if prop == "C15" {
		body = w.mainC15
	}
	res := simrt.Run(simrt.RunConfig{KeepLog: keep, StepCap: 300000}, ch, body)
	o := &kit.Outcome{Res: res, Viol: w.viol}
	if res.End != "ok" {
		o.Infra = "run ended with " + res.End + ": " + strings.Join(res.Blocked, "; ")
	}
	for _, r := range res.Races {
		s := []string{r.Site1, r.Site2}
		sort.Strings(s)
		o.Viol = append(o.Viol, kit.Violation{Prop: prop, Class: "data-race", Detail: r.String(), Sig: "data-race " + s[0] + " " + s[1], Seq: r.Seq})
	}
	for _, p := range res.Panics {
		o.Viol = append(o.Viol, kit.Violation{Prop: prop, Class: "panic-escaped-task", Detail: p.Name + ": " + p.Value + "\n" + p.Stack, Sig: "panic-escaped-task", Seq: p.Seq})
	}
	h := w.hist
	if len(h) > 40 {
		h = h[:40]
	}
	o.Sample = map[string]any{"config": w.cfg, "history": h}
	return o
}

func (w *world) newRequest(method, path, by string) *request {
	r := &request{id: len(w.reqs), method: method, path: path, nRoutes: len(w.routes), by: by}
	r.token = fmt.Sprintf("TOK%dx", r.id)
	w.reqs = append(w.reqs, r)
	w.byHdr[strconv.Itoa(r.id)] = r
	return r
}

func httpReq(r *request) *http.Request {
	return &http.Request{Method: r.method, URL: &url.URL{Path: r.path}, RequestURI: r.path, RemoteAddr: remoteAddr(r),
		Header: http.Header{"X-Req": []string{strconv.Itoa(r.id)}}, Proto: "HTTP/1.1"}
}

// remoteAddr: IPv4 and (every fifth request) bracketed IPv6 peers.
func remoteAddr(r *request) string {
	if r.id%5 == 4 {
		return fmt.Sprintf("[2001:db8::%x]:4%03d", 1+r.id, r.id)
	}
	return fmt.Sprintf("10.0.3.%d:4%03d", 1+r.id%200, r.id)
}

func clientIP(r *request) string {
	if r.id%5 == 4 {
		return fmt.Sprintf("2001:db8::%x", 1+r.id)
	}
	return fmt.Sprintf("10.0.3.%d", 1+r.id%200)
}

func (w *world) reqOf(store *httpd.Store, table map[string]*request) *request {
	return table[store.R.Header.Get("X-Req")]
}

// observe records what a handler sees through Store.
func observe(store *httpd.Store, o *obs) {
	defer func() {
		if p := recover(); p != nil {
			o.GlbPanic = fmt.Sprint(p)
		}
	}()
	o.Handlers++
	o.IDs = append(o.IDs, strings.Clone(store.GetID()))
	if store.I != nil {
		o.RoutePath, o.RouteMethod = store.I.Path, store.I.Method
	}
	o.Params = map[string]string{}
	for _, n := range allNames {
		o.Params[n] = strings.Clone(store.RouteParam(n))
		// the found flag of the lookup is part of its result
		if v, ok := store.P.Get(n); ok {
			o.Params[n+" (found)"] = strings.Clone(v)
		}
	}
	o.Any = strings.Clone(store.RouteParamAny())
}

// buildMux registers routes on a fresh Mux whose relay, route handlers and
// no-route handler record observations into table.
func (w *world) buildMux(routes []route, table map[string]*request) *httpd.Mux {
	mux := httpd.NewMux()
	handler := func(store *httpd.Store) {
		r := w.reqOf(store, table)
		observe(store, r.obs)
		w.serveNested(mux, store, r, table)
		switch r.beh.panicAt {
		case 1:
			panic(harnessPanic{r.token})
		case 2:
			store.W.WriteHeader(206)
			panic(escapingPanic{r.token})
		}
		store.W.WriteHeader(200)
		r.obs.IDs = append(r.obs.IDs, strings.Clone(store.GetID()))
	}
	w.installRelayWith(mux, table, handler)
	for _, rt := range routes {
		mux.Handle(rt.path, rt.method, handler)
	}
	return mux
}

func (w *world) installRelay(mux *httpd.Mux, table map[string]*request) {
	w.installRelayWith(mux, table, w.buildMuxHandler(table))
}

func (w *world) installRelayWith(mux *httpd.Mux, table map[string]*request, handler httpd.HandlerFunc) {
	mux.HandleRelay(func(store *httpd.Store) {
		r := w.reqOf(store, table)
		r.obs.StatusEntry = store.W.Status
		r.obs.IDs = append(r.obs.IDs, strings.Clone(store.GetID()))
		defer func() {
			if p := recover(); p != nil {
				if _, through := p.(escapingPanic); through {
					panic(p) // this relay lets it unwind through ServeHTTP
				}
				if _, mine := p.(harnessPanic); !mine {
					r.obs.GlbPanic = fmt.Sprint(p)
				}
			}
		}()
		store.I.HandlerFunc(store)
	})
	mux.HandleNoRoute(handler)
}

func (w *world) serve(mux *httpd.Mux, r *request) {
	r.obs = &obs{}
	r.resp = &simResponse{hdr: http.Header{}}
	defer func() {
		if p := recover(); p != nil {
			r.escaped = fmt.Sprint(p)
		}
	}()
	if r.id%3 == 1 {
		// a plainer connection: it can be flushed, but has no FlushError,
		// ReadFrom or WriteString of its own
		mux.ServeHTTP(plainResponse{r.resp}, httpReq(r))
		return
	}
	mux.ServeHTTP(r.resp, httpReq(r))
}

// plainResponse exposes only the core of simResponse plus Flush.
type plainResponse struct{ r *simResponse }

func (p plainResponse) Header() http.Header         { return p.r.Header() }
func (p plainResponse) WriteHeader(code int)        { p.r.WriteHeader(code) }
func (p plainResponse) Write(b []byte) (int, error) { return p.r.Write(b) }
func (p plainResponse) Flush()                      { p.r.Flush() }

func (w *world) genPath() (string, string) {
	ch := simrt.Choose
	seg := func() string { return []string{"1", "2", "zz", "u", "x", "t"}[ch("path.seg", 6)] }
	method := []string{"GET", "POST", "DELETE"}[ch("req.method", 3)]
	segs := func(n int) string {
		var b strings.Builder
		for i := 0; i < n; i++ {
			b.WriteString("/" + seg())
		}
		return b.String()
	}
	switch ch("path.kind", 16) {
	case 13:
		return method, "/m" + segs(9)
	case 14:
		return method, "/n" + segs(13)
	case 15:
		return method, "/m" + segs(7) // partial match of the long route, then nothing
	case 0:
		return method, "/"
	case 1:
		return method, "/zzz"
	case 2:
		return method, "/s"
	case 3:
		return method, "/u/" + seg() + "/" + seg()
	case 4:
		return method, "/v/" + seg()
	case 5:
		return method, "/f/" + seg() + "/" + seg() + "/" + seg()
	case 6:
		return method, "/w/" + seg() + "/x/" + seg() + "/" + seg()
	case 7:
		return method, "/u/" + seg() // matches /u/:x for POST only; for GET it walks into :a and fails
	case 8:
		return method, "/p/" + seg() + "/" + seg() + "/" + seg() + "/" + seg()
	case 9:
		return method, "/w/" + seg() + "/x/" + seg() // partial match, then nothing
	case 10:
		return method, "/u/" + seg() + "/" // trailing slash: an empty last segment
	case 11:
		return method, "/f//" + seg() // empty segment inside
	default:
		return method, "/v/" + seg() + "/t"
	}
}

func (w *world) mainC05() {
	ch := simrt.Choose
	nInitial := 1 + ch("cfg.routes", 5)
	batches := 1 + ch("cfg.batches", 3)
	clients := 1 + ch("cfg.clients", 4)
	w.cfg = map[string]any{"initial_routes": nInitial, "batches": batches, "clients": clients}
	perm := make([]int, len(routePool))
	for i := range perm {
		perm[i] = i
	}
	for i := len(perm) - 1; i > 0; i-- {
		j := ch("cfg.perm", i+1)
		perm[i], perm[j] = perm[j], perm[i]
	}
	next := 0
	take := func() route { r := routePool[perm[next]]; next++; return r }
	for i := 0; i < nInitial; i++ {
		w.routes = append(w.routes, take())
	}
	mux := w.buildMux(w.routes, w.byHdr)
	w.liveMux = mux
	for b := 0; b < batches; b++ {
		var wg simrt.WaitGroup
		wg.Add(clients)
		for c := 0; c < clients; c++ {
			name := fmt.Sprintf("client%d", c)
			n := 1 + ch("client.reqs", 5)
			var mine []*request
			for i := 0; i < n; i++ {
				m, p := w.genPath()
				r := w.newRequest(m, p, name)
				if ch("req.nested", 6) == 0 {
					nm, np := w.genPath()
					r.nested = w.newRequest(nm, np, name+"-nested")
				}
				switch ch("req.panics", 8) {
				case 0:
					r.beh.panicAt = 1
				case 1:
					r.beh.panicAt = 2
					simrt.Probe("panic_unwinds_through_servehttp")
				}
				mine = append(mine, r)
			}
			simrt.GoNamed(name, "harness", func() {
				defer wg.Done()
				for _, r := range mine {
					w.serve(mux, r)
				}
			})
		}
		wg.Wait()
		// further routes registered between requests, at a quiescent point
		if b+1 < batches && ch("cfg.rehandle", 3) == 0 {
			// the relay and no-route handlers may be installed again, too
			simrt.Probe("relay_and_noroute_reinstalled")
			w.installRelay(mux, w.byHdr)
		}
		if b+1 < batches {
			k := 1 + ch("cfg.more_routes", 2)
			for i := 0; i < k && next < len(perm); i++ {
				rt := take()
				maxBefore := 0
				for _, o := range w.routes {
					if len(o.names) > maxBefore {
						maxBefore = len(o.names)
					}
				}
				if len(rt.names) > maxBefore {
					simrt.Probe("route_with_more_params_added_after_store_pooled")
				}
				w.routes = append(w.routes, rt)
				w.hist = append(w.hist, fmt.Sprintf("Handle(%s %s)", rt.method, rt.path))
				// the same handler value as every other route
				func() {
					defer func() {
						if p := recover(); p != nil {
							w.violate("C05", "handle-panicked", fmt.Sprint(p))
						}
					}()
					h := w.buildMuxHandler(w.byHdr)
					mux.Handle(rt.path, rt.method, h)
				}()
			}
		}
	}
	// reference: the same request served once by a fresh Mux that has exactly
	// the routes registered at that moment
	simrt.SetPoolFresh(true)
	defer simrt.SetPoolFresh(false)
	ids := map[string]int{}
	prefix := ""
	for _, r := range w.reqs {
		w.hist = append(w.hist, fmt.Sprintf("%s: %s %s -> route %q params %v", r.by, r.method, r.path, r.obs.RoutePath, nonEmpty(r.obs.Params)))
		if r.beh.panicAt == 2 {
			continue // the handler's own panic went through ServeHTTP: nothing to compare for this request
		}
		if r.escaped != "" {
			w.violate("C05", "panic-left-servehttp", fmt.Sprintf("%s %s: %s", r.method, r.path, r.escaped))
			continue
		}
		table := map[string]*request{}
		ref := *r
		table[strconv.Itoa(r.id)] = &ref
		fresh := w.buildMux(w.routes[:r.nRoutes], table)
		w.serve(fresh, &ref)
		if r.obs.GlbPanic != "" && ref.obs.GlbPanic == "" {
			w.violate("C05", "lookup-panicked", fmt.Sprintf("%s %s (request %d by %s, after %d earlier requests): %s; the same request on a fresh Mux does not panic", r.method, r.path, r.id, r.by, r.id, r.obs.GlbPanic))
			continue
		}
		a, _ := json.Marshal(strip(r.obs))
		b, _ := json.Marshal(strip(ref.obs))
		if string(a) != string(b) {
			w.violate("C05", "observation-differs-from-fresh-mux", fmt.Sprintf("%s %s (request %d by %s):\n pooled %s\n fresh  %s", r.method, r.path, r.id, r.by, a, b))
		}
		for _, id := range r.obs.IDs {
			if id != r.obs.IDs[0] {
				w.violate("C05", "id-changed-during-request", fmt.Sprintf("request %d saw IDs %v", r.id, r.obs.IDs))
			}
		}
		if len(r.obs.IDs) > 0 {
			id := r.obs.IDs[0]
			if prev, dup := ids[id]; dup {
				w.violate("C05", "duplicate-id", fmt.Sprintf("requests %d and %d both have ID %s", prev, r.id, id))
			}
			ids[id] = r.id
			_ = prefix // the ID's spelling is not part of the property: only uniqueness and constancy are checked
		}
	}
}

// serveNested: a handler that serves another request through the same Mux
// before it goes on (an internal redirect). The outer request must be
// undisturbed by it: its observations are taken again afterwards.
func (w *world) serveNested(mux *httpd.Mux, store *httpd.Store, r *request, table map[string]*request) {
	if r.nested == nil || mux == nil {
		return
	}
	if _, known := table[strconv.Itoa(r.nested.id)]; !known {
		return // reference run of the outer request alone
	}
	simrt.Probe("nested_request")
	w.serve(mux, r.nested)
	again := &obs{}
	observe(store, again)
	a, _ := json.Marshal(strip(r.obs))
	again.Handlers = r.obs.Handlers
	again.StatusEntry = r.obs.StatusEntry
	b, _ := json.Marshal(strip(again))
	if string(a) != string(b) {
		w.violate("C05", "disturbed-by-nested-request", fmt.Sprintf("%s %s: before the nested request %s, after it %s", r.method, r.path, a, b))
	}
	r.obs.IDs = append(r.obs.IDs, again.IDs...)
}

func (w *world) buildMuxHandler(table map[string]*request) httpd.HandlerFunc {
	return func(store *httpd.Store) {
		r := w.reqOf(store, table)
		observe(store, r.obs)
		w.serveNested(w.liveMux, store, r, table)
		if r.beh.panicAt == 1 {
			panic(harnessPanic{r.token})
		}
		if r.beh.panicAt == 2 {
			store.W.WriteHeader(206)
			panic(escapingPanic{r.token})
		}
		store.W.WriteHeader(200)
		r.obs.IDs = append(r.obs.IDs, strings.Clone(store.GetID()))
	}
}

func nonEmpty(m map[string]string) map[string]string {
	o := map[string]string{}
	for k, v := range m {
		if v != "" {
			o[k] = v
		}
	}
	return o
}

func strip(o *obs) obs {
	c := *o
	c.IDs = nil
	return c
}

// ---------------------------------------------------------------- C15 ----

type logSink struct {
	w    *world
	data [][]byte
	slow bool
}

func (s *logSink) Write(p []byte) (int, error) {
	s.data = append(s.data, append([]byte(nil), p...))
	for i := simrt.Choose("sink.slow", 3); i > 0; i-- {
		simrt.Yield("sink")
	}
	if s.slow {
		// a destination that takes its time (a pipe to a slow reader): whoever
		// writes holds the log mutex meanwhile and everybody else queues up
		simrt.Sleep(time.Millisecond)
	}
	return len(p), nil
}

type logRec struct {
	level, tag, ip, method, path, tid, code, panicText string
	raw                                                string
	order                                              int
}

var nanoHead = regexp.MustCompile(`(?m)^\d{4}-\d\d-\d\d \d\d:\d\d:\d\d \[([DIWEF])\] `)

func (w *world) parseLog() []logRec {
	var out []logRec
	all := bytes.Join(w.sink.data, nil)
	switch w.lkind {
	case 2: // json
		for i, line := range strings.Split(strings.TrimSuffix(string(all), "\n"), "\n") {
			if line == "" {
				continue
			}
			var m map[string]any
			if err := json.Unmarshal([]byte(line), &m); err != nil {
				w.violate("C15", "unparsable-log-line", fmt.Sprintf("%v: %q", err, clip(line)))
				continue
			}
			g := func(k string) string {
				if v, ok := m[k]; ok {
					if f, isNum := v.(float64); isNum {
						return strconv.Itoa(int(f))
					}
					return fmt.Sprint(v)
				}
				return ""
			}
			out = append(out, logRec{level: g("level"), tag: g("tag"), ip: g("ip"), method: g("method"), path: g("path"), tid: g("tid"), code: g("code"), panicText: g("panic"), raw: line, order: i})
		}
	case 1: // text
		for i, line := range strings.Split(strings.TrimSuffix(string(all), "\n"), "\n") {
			if line == "" {
				continue
			}
			m := map[string]string{}
			rest := line
			for len(rest) > 0 {
				rest = strings.TrimLeft(rest, " ")
				eq := strings.IndexByte(rest, '=')
				if eq < 0 {
					break
				}
				key := rest[:eq]
				rest = rest[eq+1:]
				var val string
				if strings.HasPrefix(rest, `"`) {
					q, err := strconv.QuotedPrefix(rest)
					if err != nil {
						w.violate("C15", "unparsable-log-line", clip(line))
						break
					}
					val, _ = strconv.Unquote(q)
					rest = rest[len(q):]
				} else {
					sp := strings.IndexByte(rest, ' ')
					if sp < 0 {
						sp = len(rest)
					}
					val = rest[:sp]
					rest = rest[sp:]
				}
				m[key] = val
			}
			out = append(out, logRec{level: m["level"], tag: m["tag"], ip: m["ip"], method: m["method"], path: m["path"], tid: m["tid"], code: m["code"], panicText: m["panic"], raw: line, order: i})
		}
	default: // nano: records start with a timestamp-and-level prefix
		s := string(all)
		idx := nanoHead.FindAllStringSubmatchIndex(s, -1)
		for i, loc := range idx {
			end := len(s)
			if i+1 < len(idx) {
				end = idx[i+1][0]
			}
			lvl := map[string]string{"D": "DEBUG", "I": "INFO", "W": "WARN", "E": "ERROR", "F": "FATAL"}[s[loc[2]:loc[3]]]
			body := strings.TrimSuffix(s[loc[1]:end], "\n")
			f := strings.Fields(body)
			rec := logRec{level: lvl, raw: s[loc[0]:end], order: i}
			switch {
			case len(f) == 5 && f[0] == "REQ_BEG":
				rec.tag, rec.ip, rec.method, rec.path, rec.tid = f[0], f[1], f[2], f[3], f[4]
			case len(f) == 7 && f[0] == "REQ_END":
				rec.tag, rec.code, rec.ip, rec.method, rec.path, rec.tid = f[0], f[1], f[3], f[4], f[5], f[6]
			case len(f) >= 1:
				rec.tid = f[len(f)-1]
				rec.panicText = body
			}
			out = append(out, rec)
		}
	}
	return out
}

func clip(s string) string {
	if len(s) > 300 {
		return s[:150] + "…" + s[len(s)-150:]
	}
	return s
}

func (w *world) panicValue(r *request) any {
	switch r.beh.panicVal {
	case 0:
		return "str-" + r.token
	case 1:
		return errors.New("err-" + r.token)
	case 2:
		return 700000 + r.id
	case 3:
		return struct{ Tok string }{r.token}
	case 4:
		return fmt.Errorf("wrapped %s: %w", r.token, errors.New("inner"))
	case 5:
		var m map[string]int
		m[r.token] = 1 // runtime.Error: assignment to entry in nil map
		return nil
	case 6:
		return nil // panic(nil): *runtime.PanicNilError since Go 1.21
	case 8:
		// wraps the sentinel without being it: net/http compares with ==, so
		// this is an ordinary panic value
		return fmt.Errorf("wrapped-%s: %w", r.token, http.ErrAbortHandler)
	case 9:
		var e *fs.PathError // typed nil of a standard error type with Unwrap
		return error(e)
	case 10:
		return claimsAll{r.token}
	case 11:
		// the one value the property exempts: nothing is asserted about THIS
		// request, but the requests that follow it must be served correctly
		simrt.Probe("abort_handler_panic")
		return http.ErrAbortHandler
	case 12:
		// values of types that cannot be map keys or compared with ==
		simrt.Probe("unhashable_panic_value")
		return []string{"slice", r.token}
	case 13:
		simrt.Probe("unhashable_panic_value")
		return map[string]int{r.token: 1}
	case 14:
		simrt.Probe("unhashable_panic_value")
		return func() string { return r.token }
	case 15:
		simrt.Probe("unhashable_panic_value")
		return struct{ Toks []string }{[]string{r.token}}
	default:
		var e *nilErr
		return error(e) // typed nil pointer whose type implements error
	}
}

// descendAndPanicWithAVeryLongFunctionNameSoThatEveryFrameOfTheTraceIsLongAndTheWholeStackTraceThatRelayPutsIntoItsErrorRecordIsSeveralTimesLargerThanTheSixteenKibibyteLimitOfTheLogBufferPoolWhateverTheGoroutineNumbersAndArgumentAddressesHappenToBeInThisParticularProcessSoThatNoRunSitsOnTheBoundaryOfTheLimit
// raises v from depth frames down.
func descendAndPanicWithAVeryLongFunctionNameSoThatEveryFrameOfTheTraceIsLongAndTheWholeStackTraceThatRelayPutsIntoItsErrorRecordIsSeveralTimesLargerThanTheSixteenKibibyteLimitOfTheLogBufferPoolWhateverTheGoroutineNumbersAndArgumentAddressesHappenToBeInThisParticularProcessSoThatNoRunSitsOnTheBoundaryOfTheLimit(depth int, v any) {
	if depth == 0 {
		panic(v)
	}
	descendAndPanicWithAVeryLongFunctionNameSoThatEveryFrameOfTheTraceIsLongAndTheWholeStackTraceThatRelayPutsIntoItsErrorRecordIsSeveralTimesLargerThanTheSixteenKibibyteLimitOfTheLogBufferPoolWhateverTheGoroutineNumbersAndArgumentAddressesHappenToBeInThisParticularProcessSoThatNoRunSitsOnTheBoundaryOfTheLimit(depth-1, v)
}

func (w *world) raise(r *request) {
	v := w.panicValue(r)
	if r.beh.deep {
		simrt.Probe("panic_with_long_stack_trace")
		descendAndPanicWithAVeryLongFunctionNameSoThatEveryFrameOfTheTraceIsLongAndTheWholeStackTraceThatRelayPutsIntoItsErrorRecordIsSeveralTimesLargerThanTheSixteenKibibyteLimitOfTheLogBufferPoolWhateverTheGoroutineNumbersAndArgumentAddressesHappenToBeInThisParticularProcessSoThatNoRunSitsOnTheBoundaryOfTheLimit(300, v)
	}
	panic(v)
}

func (w *world) c15Handler(store *httpd.Store) {
	r := w.reqOf(store, w.byHdr)
	if !r.inInner {
		r.tid = strings.Clone(store.GetID())
		r.obs.Handlers++
	}
	b := r.beh
	r.resp.fail = b.failBody
	if b.mount && !r.inInner {
		// a mounted sub-router: the handler hands its own ResponseWriter and
		// request to another Mux, whose handler does everything else
		simrt.Probe("mounted_sub_router")
		r.inInner = true
		w.inner.ServeHTTP(store.W, store.R)
		return
	}
	if w.sink != nil && w.sink.slow {
		// storm: every handler first waits for the same slow backend, so they
		// all come back - and most of them fail - at about the same time
		// (until the next multiple of 250 ms of simulated time)
		const tick = int64(250 * time.Millisecond)
		simrt.Sleep(time.Duration(tick - simrt.Elapsed()%tick))
	}
	if b.emptyFirst {
		simrt.Probe("zero_length_first_write")
		store.W.Write(nil)
	}
	switch b.flushFirst {
	case 1:
		simrt.Probe("flush_before_writing")
		store.W.Flush()
	case 2:
		simrt.Probe("flush_before_writing")
		store.W.FlushError()
	}
	if b.panicAt == 1 {
		simrt.Probe("panic_before_writing")
		w.raise(r)
	}
	switch {
	case b.status == 0:
	case b.how == 1 && b.status == 200:
		put(store, b, "implied")
	case b.how == 2 && b.status == 200:
		store.Respond200(nil)
	case b.how == 2 && b.status == 500:
		store.Error500("oops")
	case b.how == 2 && b.status == 404:
		store.Error404("nope")
	case b.how == 2:
		http.Error(store.W, "err", b.status)
	default:
		store.W.WriteHeader(b.status)
	}
	if b.panicAt == 2 {
		simrt.Probe("panic_after_status")
		w.raise(r)
	}
	if b.body {
		put(store, b, "part1 ")
		if b.panicAt == 3 {
			simrt.Probe("panic_after_partial_body")
			w.raise(r)
		}
		put(store, b, "part2")
	} else if b.panicAt == 3 {
		w.raise(r)
	}
}

func (w *world) mainC15() {
	ch := simrt.Choose
	w.lkind = ch("cfg.handler", 3)
	level := []int{0, 4}[ch("cfg.threshold", 2)]
	clients := 1 + ch("cfg.clients", 6)
	// one run in twelve is a storm: many clients at once, most of their
	// handlers panicking (whatever Relay keeps per panic in flight is exhausted)
	storm := ch("cfg.storm", 12) == 11
	if storm {
		simrt.Probe("panic_storm")
		clients = 18 + ch("cfg.storm.clients", 8)
	}
	w.cfg = map[string]any{"handler": []string{"nano", "text", "json"}[w.lkind], "threshold": level, "clients": clients, "storm": storm}
	w.sink = &logSink{w: w, slow: storm}
	opts := logger.NewOptions(logger.LevelDebug+0, false, false)
	if level == 4 {
		opts = logger.NewOptions(logger.LevelInfo, false, false)
	}
	var l *logger.Logger
	switch w.lkind {
	case 0:
		l = logger.New(logger.NewNanoHandler(w.sink, opts))
	case 1:
		l = logger.New(logger.NewTextHandler(w.sink, opts))
	default:
		l = logger.New(logger.NewJsonHandler(w.sink, opts))
	}
	mux := httpd.NewMux()
	mux.HandleRelay(l.Relay)
	mux.HandleNoRoute(w.c15Handler)
	w.inner = httpd.NewMux()
	w.inner.HandleNoRoute(w.c15Handler)
	w.inner.Handle("/s", "GET", w.c15Handler)
	for _, rt := range routePool[:6] {
		mux.Handle(rt.path, rt.method, w.c15Handler)
	}
	var wg simrt.WaitGroup
	wg.Add(clients)
	for c := 0; c < clients; c++ {
		name := fmt.Sprintf("client%d", c)
		n := 1 + ch("client.reqs", 3)
		var mine []*request
		for i := 0; i < n; i++ {
			m, p := w.genPath()
			r := w.newRequest(m, p, name)
			b := &r.beh
			b.status = []int{0, 200, 200, 201, 204, 301, 404, 418, 500, 503, 599}[ch("beh.status", 11)]
			b.how = ch("beh.how", 3)
			b.body = ch("beh.body", 2) == 1
			b.panicAt = []int{0, 0, 1, 2, 3}[ch("beh.panic", 5)]
			if storm {
				b.panicAt = []int{1, 1, 2, 1, 0}[ch("beh.panic", 5)]
			}
			if b.panicAt != 0 {
				b.panicVal = ch("beh.panic_value", 16)
				b.deep = !storm && ch("beh.deep_panic", 5) == 0
			}
			b.failBody = ch("beh.client_gone", 6) == 0
			if b.status == 0 && ch("beh.empty_first_write", 3) == 0 {
				b.emptyFirst = true
			}
			b.via = ch("beh.via", 3)
			b.mount = ch("beh.mount", 6) == 5
			if b.status == 0 && ch("beh.flush_first", 4) == 0 {
				b.flushFirst = 1 + ch("beh.flush_kind", 2)
			}
			mine = append(mine, r)
		}
		simrt.GoNamed(name, "harness", func() {
			defer wg.Done()
			for _, r := range mine {
				w.serve(mux, r)
			}
		})
	}
	wg.Wait()

	recs := w.parseLog()
	byTid := map[string][]logRec{}
	for _, lr := range recs {
		byTid[lr.tid] = append(byTid[lr.tid], lr)
	}
	seenTid := map[string]int{}
	for _, r := range w.reqs {
		b := r.beh
		w.hist = append(w.hist, fmt.Sprintf("%s: %s %s behaviour=%+v -> client status %d, tid %s", r.by, r.method, r.path, b, r.resp.status, r.tid))
		if b.panicAt != 0 && b.panicVal == 11 {
			if r.tid != "" {
				seenTid[r.tid] = r.id
			}
			continue // http.ErrAbortHandler: exempt (a relay may swallow it or let it through)
		}
		if r.escaped != "" {
			w.violate("C15", "panic-escaped-relay", fmt.Sprintf("%s %s with handler behaviour %+v: panic left ServeHTTP: %s", r.method, r.path, b, r.escaped))
			continue
		}
		if r.obs.Handlers != 1 {
			w.violate("C15", "handler-count", fmt.Sprintf("request %d: handler ran %d times", r.id, r.obs.Handlers))
			continue
		}
		if prev, dup := seenTid[r.tid]; dup {
			w.violate("C15", "duplicate-id", fmt.Sprintf("requests %d and %d share ID %s", prev, r.id, r.tid))
		}
		seenTid[r.tid] = r.id
		// what the client received: replay the handler's script up to its panic
		written, code, want := false, 0, 0
		if b.emptyFirst || b.flushFirst != 0 {
			want = 200 // committed by the zero-length write or the flush, whatever happens next
		} else if b.panicAt == 1 {
			want = 500
		} else {
			if b.status != 0 {
				written, code = true, b.status
			}
			if b.body && b.panicAt != 2 && !written {
				written, code = true, 200 // implied by the first body write
			}
			switch {
			case b.panicAt != 0 && !written:
				want = 500
			case written:
				want = code
			default:
				want = 200
			}
		}
		got := r.resp.status
		if got == 0 {
			got = 200 // net/http sends 200 when the handler returns without writing
		}
		if got != want {
			w.violate("C15", "client-status", fmt.Sprintf("%s %s behaviour %+v: client received %d, want %d (500 exactly when the handler panicked before any status was written)", r.method, r.path, b, got, want))
		}
		if r.resp.headerCalls > 1 {
			w.violate("C15", "superfluous-writeheader", fmt.Sprintf("%s %s behaviour %+v: WriteHeader reached the client connection %d times", r.method, r.path, b, r.resp.headerCalls))
		}
		// the log
		var beg, end, errs []logRec
		for _, lr := range byTid[r.tid] {
			switch {
			case lr.tag == "REQ_BEG":
				beg = append(beg, lr)
			case lr.tag == "REQ_END":
				end = append(end, lr)
			case lr.level == "ERROR":
				errs = append(errs, lr)
			}
		}
		if len(beg) != 1 || len(end) != 1 {
			w.violate("C15", "beg-end-count", fmt.Sprintf("request %d (%s %s, tid %s, behaviour %+v): %d REQ_BEG and %d REQ_END records", r.id, r.method, r.path, r.tid, b, len(beg), len(end)))
			continue
		}
		ip := clientIP(r)
		for _, lr := range []logRec{beg[0], end[0]} {
			if lr.method != r.method || lr.path != r.path || lr.ip != ip || lr.level != "INFO" {
				w.violate("C15", "record-fields", fmt.Sprintf("request %d (%s %s from %s): record says %q", r.id, r.method, r.path, ip, clip(lr.raw)))
			}
		}
		if beg[0].order > end[0].order {
			w.violate("C15", "beg-after-end", fmt.Sprintf("request %d: REQ_END precedes REQ_BEG in the destination", r.id))
		}
		if end[0].code != strconv.Itoa(got) {
			w.violate("C15", "logged-code", fmt.Sprintf("request %d (%s %s behaviour %+v): REQ_END says code=%s, the client received %d", r.id, r.method, r.path, b, end[0].code, got))
		}
		if b.panicAt != 0 {
			if len(errs) != 1 {
				w.violate("C15", "panic-record-count", fmt.Sprintf("request %d behaviour %+v: %d Error records with its ID", r.id, b, len(errs)))
			} else if want := map[bool]string{true: strconv.Itoa(700000 + r.id), false: r.token}[b.panicVal == 2]; (b.panicVal <= 4 || b.panicVal == 8 || b.panicVal == 10 || b.panicVal == 12 || b.panicVal == 13 || b.panicVal == 15) && !strings.Contains(errs[0].panicText, want) {
				w.violate("C15", "panic-record-value", fmt.Sprintf("request %d behaviour %+v: Error record does not carry the panic value: %q", r.id, b, clip(errs[0].raw)))
			}
		} else if len(errs) != 0 {
			w.violate("C15", "panic-record-count", fmt.Sprintf("request %d did not panic but has %d Error records", r.id, len(errs)))
		}
	}
	if len(recs) != countExpected(w.reqs) {
		simrt.Probe("record_total_checked")
	}
}

func countExpected(rs []*request) int {
	n := 0
	for _, r := range rs {
		n += 2
		if r.beh.panicAt != 0 {
			n++
		}
	}
	return n
}
