// procworld: daemon.Launch with real processes under forced schedules (C20).
//
// Everything is real here - fork/exec, SIGINT, the Go runtime's signal
// handling, the kernel. What the harness takes control of is the ORDER: the
// three processes are parked and released at intercepted points (the daemon's
// handler and the caller are harness code; the launcher has one guarded pause
// hook in /repo, build tag "verif"), so that the seed, not the kernel, decides
// where Done() lands relative to the launcher's steps.
//
// The same binary plays caller, launcher and daemon, exactly as the package
// documentation prescribes (Register + Run in init).
package main

import (
	"encoding/json"
	"errors"
	"flag"
	"fmt"
	"os"
	"path/filepath"
	"sort"
	"strconv"
	"strings"
	"sync"
	"syscall"
	"time"

	"github.com/whoisnian/glb/daemon"
)

const nHandlers = 8

func init() {
	for i := 0; i < nHandlers; i++ {
		name := fmt.Sprintf("h%d", i)
		// the body knows under which name it was REGISTERED: if Launch(x) ends
		// up running the handler of y, the process reports itself as y
		daemon.Register(name, func() { daemonBody(name) })
	}
	// one more handler for the slow daemon (schedule S5), never used by a burst
	daemon.Register("hslow", func() { daemonBody("hslow") })
	if daemon.Run() {
		// the launcher is this program too: what it does between Run()
		// returning and exiting (clean-up, log flush, exit hooks) is one more
		// timing the harness chooses
		if os.Getenv("ENV_DAEMON_FLAG") == "isLauncher" {
			var p plan
			if b, err := os.ReadFile(filepath.Join(os.Getenv("PW_BASE"), os.Getenv("ENV_DAEMON_NAME"), "plan.json")); err == nil {
				json.Unmarshal(b, &p)
			}
			time.Sleep(time.Duration(p.LingerMs) * time.Millisecond)
		}
		os.Exit(0)
	}
}

type plan struct {
	Kind    string `json:"kind"` // S6 one-shot daemon with the launcher stopped across Done() and the daemon's exit, S1 natural, S2 done-before-launcher-listens, S3 slow-daemon, S4 launcher-then-daemon, S0 the handler exits before Done() (a fault; the launches AFTER it are what is checked)
	Markers int    `json:"markers"`
	Name    string `json:"name"`
	Group   int    `json:"group"` // launches with the same group number run concurrently
	Burst   bool   `json:"burst,omitempty"`
	// LingerMs: how long the launcher process stays alive after launch() returned
	LingerMs int `json:"linger_ms,omitempty"`
	// SlowMs: how long the daemon of schedule S5 takes before it does anything
	SlowMs int `json:"slow_ms,omitempty"`
	// ScrubEnv: the daemon clears its environment before calling Done()
	ScrubEnv bool `json:"scrub_env,omitempty"`
}

func waitFile(path string, d time.Duration) bool {
	deadline := time.Now().Add(d)
	for time.Now().Before(deadline) {
		if _, err := os.Stat(path); err == nil {
			return true
		}
		time.Sleep(time.Millisecond)
	}
	return false
}

func waitGlob(pattern string, d time.Duration) string {
	deadline := time.Now().Add(d)
	for time.Now().Before(deadline) {
		if m, _ := filepath.Glob(pattern); len(m) > 0 {
			return m[0]
		}
		time.Sleep(time.Millisecond)
	}
	return ""
}

// daemonBody is the handler that runs in the daemon process.
func daemonBody(registered string) {
	// the launcher's pid, taken while the launcher certainly exists (after
	// Done() it may be gone already and Getppid() would name the reaper)
	lpid := os.Getppid()
	dir := filepath.Join(os.Getenv("PW_BASE"), registered)
	os.MkdirAll(filepath.Join(os.Getenv("PW_BASE"), "pids"), 0755)
	os.WriteFile(filepath.Join(os.Getenv("PW_BASE"), "pids", strconv.Itoa(os.Getpid())), []byte(registered), 0644)
	var p plan
	if b, err := os.ReadFile(filepath.Join(dir, "plan.json")); err == nil {
		json.Unmarshal(b, &p)
	}
	os.WriteFile(filepath.Join(dir, "daemon.info.tmp"), []byte(fmt.Sprintf("%d %d", os.Getpid(), os.Getppid())), 0644)
	os.Rename(filepath.Join(dir, "daemon.info.tmp"), filepath.Join(dir, "daemon.info"))
	if p.Kind == "S5" {
		// a daemon that needs seconds to start up (everything it does before
		// Done(), the markers included, comes after this)
		time.Sleep(time.Duration(p.SlowMs) * time.Millisecond)
	}
	if p.Kind == "S0" {
		// the fault: this daemon dies before it ever calls Done()
		fmt.Fprintln(os.Stderr, "daemon", registered, "cannot start")
		os.Exit(3)
	}
	for i := 0; i < p.Markers; i++ {
		os.WriteFile(filepath.Join(dir, fmt.Sprintf("marker.%d", i)), []byte("x"), 0644)
	}
	if p.Kind == "S3" || p.Kind == "S4" {
		os.WriteFile(filepath.Join(dir, "d-pre.reached"), nil, 0644)
		if !waitFile(filepath.Join(dir, "d-pre.go"), 30*time.Second) {
			os.Exit(97)
		}
	}
	if p.Kind == "S6" {
		// a one-shot daemon whose launcher is stalled (a stopped process) across
		// the hand-over: it waits until the launcher certainly sits in its wait,
		// stops it, calls Done() and leaves at once. The launcher wakes up later
		// (the harness continues it) with BOTH events waiting: the signal and
		// the end of its child.
		time.Sleep(30 * time.Millisecond)
		if syscall.Kill(lpid, syscall.SIGSTOP) == nil {
			for i := 0; i < 200 && procState(lpid) != 'T'; i++ {
				time.Sleep(time.Millisecond)
			}
			os.WriteFile(filepath.Join(dir, "launcher.stopped"), []byte(strconv.Itoa(lpid)), 0644)
		}
		err := daemon.Done()
		os.WriteFile(filepath.Join(dir, "d-done.tmp"), []byte(fmt.Sprint(err)), 0644)
		os.Rename(filepath.Join(dir, "d-done.tmp"), filepath.Join(dir, "d-done"))
		return
	}
	if p.ScrubEnv {
		// a careful daemon removes the role variables so that helpers it starts
		// from the same binary are not taken for daemons
		base := os.Getenv("PW_BASE")
		os.Clearenv()
		os.Setenv("PW_BASE", base)
	}
	err := daemon.Done()
	os.WriteFile(filepath.Join(dir, "d-done.tmp"), []byte(fmt.Sprint(err)), 0644)
	os.Rename(filepath.Join(dir, "d-done.tmp"), filepath.Join(dir, "d-done"))
	// a daemon goes on working after the hand-over: once its launcher is gone
	// it writes to its standard streams, as any logging daemon would
	for i := 0; i < 3000 && os.Getppid() == lpid && syscall.Kill(lpid, 0) == nil; i++ {
		time.Sleep(time.Millisecond)
	}
	time.Sleep(5 * time.Millisecond)
	fmt.Fprintln(os.Stderr, "daemon", registered, "still here (stderr)")
	fmt.Fprintln(os.Stdout, "daemon", registered, "still here (stdout)")
	os.WriteFile(filepath.Join(dir, "io-done"), nil, 0644)
	waitFile(filepath.Join(dir, "exit"), 60*time.Second)
}

type violation struct {
	Class  string `json:"class"`
	Detail string `json:"detail"`
	Sig    string `json:"signature"`
}

type outcome struct {
	// Prior: the failed launches (S0) this process had performed before
	Prior []plan `json:"prior_failed_launches,omitempty"`
	// History: every group of launches this process had performed before (only
	// attached to failing outcomes that come after a failed launch)
	History [][]plan   `json:"history,omitempty"`
	Plan    plan       `json:"plan"`
	Peers   []plan     `json:"group_plans,omitempty"` // the whole burst, for replay
	Viol    *violation `json:"violation,omitempty"`
	Infra   string     `json:"infra,omitempty"`
	Events  []string   `json:"events"`
	WallMs  int64      `json:"wall_ms"`
}

// alive: the process exists and is not a zombie (the sandbox's pid 1 may not
// reap orphans promptly).
// procState is the state letter of /proc/<pid>/stat (0: no such process).
func procState(pid int) byte {
	b, err := os.ReadFile(fmt.Sprintf("/proc/%d/stat", pid))
	if err != nil {
		return 0
	}
	s := string(b)
	if i := strings.LastIndexByte(s, ')'); i >= 0 && i+2 < len(s) {
		return s[i+2]
	}
	return 0
}

func alive(pid int) bool {
	if syscall.Kill(pid, 0) != nil {
		return false
	}
	b, err := os.ReadFile(fmt.Sprintf("/proc/%d/stat", pid))
	if err != nil {
		return false
	}
	s := string(b)
	if i := strings.LastIndexByte(s, ')'); i >= 0 && i+2 < len(s) {
		return s[i+2] != 'Z'
	}
	return true
}

func ppidOf(pid int) int {
	b, err := os.ReadFile(fmt.Sprintf("/proc/%d/status", pid))
	if err != nil {
		return -1
	}
	for _, l := range strings.Split(string(b), "\n") {
		if strings.HasPrefix(l, "PPid:") {
			v, _ := strconv.Atoi(strings.TrimSpace(l[5:]))
			return v
		}
	}
	return -1
}

func runOne(base string, p plan, barrier *sync.WaitGroup) (o outcome) {
	start := time.Now()
	o.Plan = p
	ev := func(format string, a ...any) {
		o.Events = append(o.Events, fmt.Sprintf("%6.1fms ", float64(time.Since(start).Microseconds())/1000)+fmt.Sprintf(format, a...))
	}
	fail := func(class, format string, a ...any) {
		if o.Viol == nil {
			o.Viol = &violation{Class: class, Detail: fmt.Sprintf(format, a...), Sig: class + " " + p.Kind}
		}
	}
	dir := filepath.Join(base, p.Name)
	os.RemoveAll(dir)
	os.MkdirAll(dir, 0755)
	b, _ := json.Marshal(p)
	os.WriteFile(filepath.Join(dir, "plan.json"), b, 0644)
	touch := func(name string) { os.WriteFile(filepath.Join(dir, name), nil, 0644) }
	daemonPid := 0
	defer func() {
		// never leave a process behind
		touch("exit")
		touch("after-start.go")
		touch("d-pre.go")
		if daemonPid == 0 {
			if b, err := os.ReadFile(filepath.Join(dir, "daemon.info")); err == nil {
				fmt.Sscan(string(b), &daemonPid)
			}
		}
		if daemonPid > 0 {
			for i := 0; i < 3000 && alive(daemonPid); i++ {
				time.Sleep(time.Millisecond)
			}
			if alive(daemonPid) {
				syscall.Kill(daemonPid, syscall.SIGKILL)
			}
		}
		o.WallMs = time.Since(start).Milliseconds()
	}()

	launcherGated := p.Kind == "S2" || p.Kind == "S4"
	if !launcherGated {
		touch("after-start.go")
	}
	type lres struct {
		pid int
		err error
	}
	done := make(chan lres, 1)
	go func() {
		if barrier != nil {
			// a burst: every launch of the group calls Launch at the same moment
			barrier.Done()
			barrier.Wait()
		}
		pid, err := daemon.Launch(p.Name)
		done <- lres{pid, err}
	}()
	ev("Launch(%s) invoked, schedule %s", p.Name, p.Kind)
	var res lres
	got := false
	exists := func(path string) bool { _, err := os.Stat(path); return err == nil }
	globbed := func(pattern string) bool { m, _ := filepath.Glob(pattern); return len(m) > 0 }
	// waitOrReturn waits for a process of this launch to reach a pause point;
	// Launch returning in the meantime ends the wait (it cannot legitimately:
	// its daemon is still before Done())
	waitOrReturn := func(reached func() bool) string {
		deadline := time.Now().Add(30 * time.Second)
		for time.Now().Before(deadline) {
			if reached() {
				return "reached"
			}
			select {
			case res = <-done:
				got = true
				return "returned"
			default:
			}
			time.Sleep(time.Millisecond)
		}
		return "timeout"
	}
	// early: the pause point was never reached. If Launch has returned, say what
	// it returned; only a plain time-out is infrastructure trouble.
	early := func(r, what string) {
		if r != "returned" {
			o.Infra = what
			return
		}
		ev("Launch returned pid=%d err=%v while the harness was waiting (%s)", res.pid, res.err, what)
		if res.err != nil {
			fail("launch-error", "Launch returned error %q (%s)", res.err, what)
			return
		}
		if b, err := os.ReadFile(filepath.Join(base, "pids", strconv.Itoa(res.pid))); err == nil && string(b) != p.Name {
			daemonPid = res.pid
			fail("wrong-handler", "Launch(%q) returned pid %d, but that process runs the handler registered as %q", p.Name, res.pid, b)
			return
		}
		fail("launch-returned-before-done", "Launch returned (pid=%d) although %s", res.pid, what)
	}
	switch p.Kind {
	case "S6":
		// whatever happens below, a launcher the daemon stopped is continued
		contLauncher := func() {
			if b, err := os.ReadFile(filepath.Join(dir, "launcher.stopped")); err == nil {
				if lp, _ := strconv.Atoi(string(b)); lp > 1 && procState(lp) == 'T' {
					syscall.Kill(lp, syscall.SIGCONT)
				}
			}
		}
		defer contLauncher()
		r := waitOrReturn(func() bool { return exists(filepath.Join(dir, "d-done")) })
		if r == "timeout" {
			o.Infra = "one-shot daemon never reported Done()"
			return
		}
		if r == "reached" {
			// wait until the daemon is gone (a zombie of the stopped launcher)
			var dp int
			if b, err := os.ReadFile(filepath.Join(dir, "daemon.info")); err == nil {
				fmt.Sscan(string(b), &dp)
			}
			for i := 0; i < 2000 && dp > 0 && alive(dp); i++ {
				time.Sleep(time.Millisecond)
			}
			time.Sleep(20 * time.Millisecond)
			ev("one-shot daemon %d called Done() and left; launcher stopped=%v", dp, exists(filepath.Join(dir, "launcher.stopped")))
			contLauncher()
			ev("launcher continued")
		}
	case "S2":
		// the launcher stays parked (before it listens for the signal) until
		// the daemon reports that Done() has returned
		if r := waitOrReturn(func() bool { return globbed(filepath.Join(dir, "after-start.reached.*")) }); r != "reached" {
			early(r, "launcher never reached the pause point")
			return
		}
		ev("launcher parked after starting the daemon")
		if r := waitOrReturn(func() bool { return exists(filepath.Join(dir, "d-done")) }); r != "reached" {
			early(r, "daemon never reported Done()")
			return
		}
		ev("daemon: Done() returned")
		touch("after-start.go")
		ev("launcher released")
	case "S3":
		if r := waitOrReturn(func() bool { return exists(filepath.Join(dir, "d-pre.reached")) }); r != "reached" {
			early(r, "daemon never reached its pre-Done point")
			return
		}
		ev("daemon parked before Done()")
		select {
		case res = <-done:
			got = true
			fail("launch-returned-before-done", "Launch returned (pid=%d, err=%v) while the daemon had not called Done() yet", res.pid, res.err)
		case <-time.After(150 * time.Millisecond):
			ev("Launch still waiting after 150ms (as it must)")
		}
		touch("d-pre.go")
		ev("daemon released")
	case "S4":
		if r := waitOrReturn(func() bool {
			return globbed(filepath.Join(dir, "after-start.reached.*")) && exists(filepath.Join(dir, "d-pre.reached"))
		}); r != "reached" {
			early(r, "launcher or daemon never reached its pause point")
			return
		}
		ev("launcher and daemon both parked")
		touch("after-start.go")
		time.Sleep(50 * time.Millisecond)
		select {
		case res = <-done:
			got = true
			fail("launch-returned-before-done", "Launch returned (pid=%d, err=%v) while the daemon had not called Done() yet", res.pid, res.err)
		default:
		}
		touch("d-pre.go")
		ev("launcher released, daemon released 50ms later")
	}
	if !got {
		select {
		case res = <-done:
		case <-time.After(6*time.Second + time.Duration(p.SlowMs)*time.Millisecond):
			fail("launch-did-not-return", "Launch has not returned 6s after the daemon called Done() (schedule S0: after it exited)")
			return
		}
	}
	ev("Launch returned pid=%d err=%v", res.pid, res.err)
	if p.Kind == "S0" {
		// the handler never called Done(): the property promises nothing about
		// this call except (checked above) that the caller gets control back
		return
	}
	// what the daemon says about itself
	var lpid int
	if b, err := os.ReadFile(filepath.Join(dir, "daemon.info")); err == nil {
		fmt.Sscan(string(b), &daemonPid, &lpid)
	}
	if res.err != nil {
		running := daemonPid > 0 && alive(daemonPid)
		fail("launch-error", "Launch returned error %q (daemon pid %d running=%v)", res.err, daemonPid, running)
		return
	}
	if b, err := os.ReadFile(filepath.Join(base, "pids", strconv.Itoa(res.pid))); err == nil && string(b) != p.Name {
		fail("wrong-handler", "Launch(%q) returned pid %d, but that process runs the handler registered as %q", p.Name, res.pid, b)
		daemonPid = res.pid
		return
	}
	if daemonPid == 0 {
		fail("no-daemon", "Launch returned nil but no daemon reported itself")
		return
	}
	if res.pid != daemonPid {
		fail("wrong-pid", "Launch returned pid %d, the daemon's own pid is %d (launcher pid %d)", res.pid, daemonPid, lpid)
	}
	if b, err := os.ReadFile(filepath.Join(base, "pids", strconv.Itoa(res.pid))); err != nil {
		fail("wrong-handler", "Launch(%q) returned pid %d, which is not a process running one of the registered handlers", p.Name, res.pid)
	} else if string(b) != p.Name {
		fail("wrong-handler", "Launch(%q) returned pid %d, but that process runs the handler registered as %q", p.Name, res.pid, b)
	}
	for i := 0; i < p.Markers; i++ {
		if _, err := os.Stat(filepath.Join(dir, fmt.Sprintf("marker.%d", i))); err != nil {
			fail("returned-before-done", "Launch returned but marker %d of %d, written by the daemon before Done(), does not exist", i, p.Markers)
		}
	}
	if !waitFile(filepath.Join(dir, "d-done"), 5*time.Second) {
		fail("done-not-reported", "the daemon did not get past Done()")
	} else if b, _ := os.ReadFile(filepath.Join(dir, "d-done")); string(b) != "<nil>" {
		fail("done-error", "Done() returned %s", b)
	}
	if p.Kind == "S6" {
		// this daemon left of its own accord right after Done(): nothing to ask
		// about its later life, only that no launcher stays behind
		if lpid > 0 && alive(lpid) && ppidOf(lpid) == os.Getpid() {
			fail("launcher-still-there", "the launcher (pid %d) still exists after Launch returned", lpid)
		}
		return
	}
	time.Sleep(100 * time.Millisecond)
	if !waitFile(filepath.Join(dir, "io-done"), 4*time.Second) && alive(daemonPid) {
		fail("daemon-stuck", "the daemon (pid %d) did not get past writing to its standard streams after the hand-over", daemonPid)
	}
	if !alive(daemonPid) {
		fail("daemon-died", "the daemon (pid %d) is not running after Launch returned (it writes a line to stderr and stdout once its launcher is gone)", daemonPid)
	} else if pp := ppidOf(daemonPid); pp == os.Getpid() || pp == lpid {
		fail("not-orphaned", "the daemon's parent is %d (caller %d, launcher %d)", pp, os.Getpid(), lpid)
	} else {
		ev("daemon alive, parent pid %d", pp)
	}
	if lpid > 0 && alive(lpid) && ppidOf(lpid) == os.Getpid() {
		fail("launcher-still-there", "the launcher (pid %d) still exists after Launch returned", lpid)
	}
	return
}

// runGroup executes the launches of one group concurrently (released together
// when it is a burst).
func runGroup(base string, plans []plan) []outcome {
	res := make([]outcome, len(plans))
	var wg sync.WaitGroup
	var barrier *sync.WaitGroup
	if plans[0].Burst {
		barrier = &sync.WaitGroup{}
		barrier.Add(len(plans))
	}
	for k := range plans {
		wg.Add(1)
		go func(k int) {
			defer wg.Done()
			res[k] = runOne(base, plans[k], barrier)
			if len(plans) > 1 {
				res[k].Peers = plans
			}
		}(k)
	}
	wg.Wait()
	return res
}

type rng struct{ s uint64 }

func (r *rng) next(n int) int {
	r.s += 0x9E3779B97F4A7C15
	z := r.s
	z = (z ^ (z >> 30)) * 0xBF58476D1CE4E5B9
	z = (z ^ (z >> 27)) * 0x94D049BB133111EB
	return int((z ^ (z >> 31)) % uint64(n))
}

func main() {
	seed := flag.Uint64("seed", 1, "seed")
	n := flag.Int("n", 40, "launches")
	out := flag.String("out", "", "result file")
	replay := flag.String("replay", "", "replay file")
	flag.Parse()
	base, err := os.MkdirTemp("", "procworld-")
	if err != nil {
		fmt.Fprintln(os.Stderr, err)
		os.Exit(2)
	}
	defer os.RemoveAll(base)
	os.Setenv("PW_BASE", base)
	os.Setenv("VERIF_DAEMON_GATE", base)

	if *replay != "" {
		b, err := os.ReadFile(*replay)
		if err != nil {
			fmt.Fprintln(os.Stderr, err)
			os.Exit(2)
		}
		var rf struct {
			Plan      plan      `json:"plan"`
			Plans     []plan    `json:"plans"`
			Prior     []plan    `json:"prior"`
			History   [][]plan  `json:"history"`
			Violation violation `json:"violation"`
		}
		if err := json.Unmarshal(b, &rf); err != nil {
			fmt.Fprintln(os.Stderr, err)
			os.Exit(2)
		}
		group := rf.Plans
		rounds := 1
		if len(group) == 0 {
			group = []plan{rf.Plan}
		} else if len(group) > 1 {
			// a burst of real processes racing in the kernel cannot be forced
			// into the identical micro-order: the same burst is repeated
			rounds = 40
		}
		// a violation that depends on what the caller did before (a history):
		// what the caller's runtime keeps between calls (sync.Pool, the garbage
		// collector) is not under the harness's control, so the history is
		// repeated a few times and any violation of the property by the launch
		// under test counts as the reproduction (the class may differ: the pid of
		// another daemon is "wrong-pid" or "wrong-handler" depending on whose)
		historyReplay := len(rf.History) > 0 || len(rf.Prior) > 0
		if historyReplay && rounds < 4 {
			rounds = 4
		}
		for round := 0; round < rounds; round++ {
			// the failed launches that came before, in this process, first
			// (the complete history of the process, when the short form did not reproduce)
			for _, g := range rf.History {
				for _, o := range runGroup(base, g) {
					if o.Infra != "" {
						fmt.Println("REPLAY infra:", o.Infra)
						os.RemoveAll(base)
						os.Exit(2)
					}
				}
			}
			for _, pp := range rf.Prior {
				for _, o := range runGroup(base, []plan{pp}) {
					if o.Infra != "" {
						fmt.Println("REPLAY infra: the earlier failing launch did not go as recorded:", o.Infra)
						os.RemoveAll(base)
						os.Exit(2)
					}
				}
			}
			for _, o := range runGroup(base, group) {
				if o.Infra != "" {
					fmt.Println("REPLAY infra:", o.Infra)
					os.RemoveAll(base)
					os.Exit(2)
				}
				if o.Viol != nil && (o.Viol.Class == rf.Violation.Class || historyReplay) {
					for _, e := range o.Events {
						fmt.Println("  " + e)
					}
					fmt.Printf("REPLAY reproduced (round %d): class=%s %s\n", round, o.Viol.Class, o.Viol.Detail)
					os.RemoveAll(base)
					os.Exit(1)
				}
			}
		}
		fmt.Println("REPLAY clean")
		return
	}

	// the order space (position of Done() relative to the launcher's steps,
	// and of Launch's return relative to the daemon's pre-Done work) is small:
	// S1-S4 cover it; the seed adds marker counts, repetition and permutations
	// of concurrent launches.
	r := &rng{s: *seed * 0x9E3779B97F4A7C15}
	kinds := []string{"S1", "S2", "S3", "S4"}
	var plans []plan
	group := 0
	for len(plans) < *n {
		group++
		if r.next(5) == 0 && len(plans) > 0 {
			// a fault: a launch whose handler exits before Done(), alone; what
			// it leaves behind in the caller meets the launches that follow
			plans = append(plans, plan{Kind: "S0", Name: fmt.Sprintf("h%d", r.next(nHandlers)), Group: group})
			group++
		}
		width := 1
		burst := false
		switch r.next(4) {
		case 0: // a burst of natural-order launches released together
			width, burst = 2+r.next(nHandlers-1), true
		case 1: // concurrent launches under forced schedules
			width = 2 + r.next(3)
		}
		for i := 0; i < width && len(plans) < *n; i++ {
			k := kinds[(len(plans)+r.next(2)*r.next(4))%4]
			if burst {
				k = "S1"
			}
			plans = append(plans, plan{Kind: k, Markers: r.next(6), Name: fmt.Sprintf("h%d", i), Group: group, Burst: burst, LingerMs: []int{0, 0, 3, 40}[r.next(4)], ScrubEnv: r.next(4) == 0})
		}
	}
	// a caller that has seen many failed launches (whatever Launch keeps per
	// launch in flight must have been given back on the failure paths too):
	// 33 launches in a row whose handler exits before Done(), then a healthy one
	for i := 0; i < 33; i++ {
		group++
		plans = append(plans, plan{Kind: "S0", Name: fmt.Sprintf("h%d", i%nHandlers), Group: group})
	}
	group++
	plans = append(plans, plan{Kind: "S1", Markers: 2, Name: "h1", Group: group})
	// S6: one-shot daemons (Done(), then gone) whose launcher is stalled across
	// both events; each alone, the launcher's choice between the two events is
	// the operating system's, so the schedule is repeated
	nOneShot := 8
	if *n > 400 {
		nOneShot = *n / 40
	}
	for i := 0; i < nOneShot; i++ {
		group++
		plans = append(plans, plan{Kind: "S6", Markers: 1 + i%3, Name: fmt.Sprintf("h%d", i%nHandlers), Group: group})
	}
	// S5, once per caller and alongside everything else: a daemon that takes
	// seven seconds to reach Done() ("however slowly")
	slowDone := make(chan outcome, 1)
	go func() {
		slowDone <- runOne(base, plan{Kind: "S5", Markers: 3, Name: "hslow", Group: -1, SlowMs: 7000}, nil)
	}()
	var outs []outcome
	var prior []plan
	var history [][]plan
	for i := 0; i < len(plans); {
		j := i
		for j < len(plans) && plans[j].Group == plans[i].Group {
			j++
		}
		res := runGroup(base, plans[i:j])
		for k := range res {
			res[k].Prior = prior
			if res[k].Viol != nil && len(prior) > 0 {
				res[k].History = history
			}
		}
		history = append(history[:len(history):len(history)], plans[i:j])
		if plans[i].Kind == "S0" {
			prior = append(append([]plan{}, prior...), plans[i])
		}
		if os.Getenv("PW_TRACE") != "" {
			for _, o := range res {
				fmt.Fprintf(os.Stderr, "%s %s group=%d wall=%dms viol=%v\n", o.Plan.Kind, o.Plan.Name, o.Plan.Group, o.WallMs, o.Viol)
			}
		}
		outs = append(outs, res...)
		i = j
		nv := 0
		for _, o := range outs {
			if o.Viol != nil {
				nv++
			}
		}
		if nv >= 4 {
			break // enough to report; failing launches are slow (they wait for time-outs)
		}
	}
	outs = append(outs, <-slowDone)
	type stats struct {
		Launches   int            `json:"launches"`
		PerKind    map[string]int `json:"per_schedule"`
		Concurrent int            `json:"concurrent_launches"`
		Distinct   int            `json:"distinct_schedules"`
		Outcomes   []outcome      `json:"failing"`
		Infra      []string       `json:"infra"`
		Samples    []outcome      `json:"samples"`
	}
	st := stats{PerKind: map[string]int{}}
	distinct := map[string]bool{}
	groupSize := map[int]int{}
	for _, p := range plans {
		groupSize[p.Group]++
	}
	for _, o := range outs {
		st.Launches++
		st.PerKind[o.Plan.Kind]++
		if groupSize[o.Plan.Group] > 1 {
			st.Concurrent++
		}
		distinct[fmt.Sprintf("%s/%d/%d/%d", o.Plan.Kind, o.Plan.Markers, groupSize[o.Plan.Group], o.Plan.LingerMs)+fmt.Sprint(o.Plan.ScrubEnv)] = true
		if o.Infra != "" {
			st.Infra = append(st.Infra, o.Plan.Kind+": "+o.Infra)
		}
		if o.Viol != nil {
			st.Outcomes = append(st.Outcomes, o)
		} else if len(st.Samples) < 2 && o.Plan.Kind != "S1" && o.Plan.Kind != "S0" {
			st.Samples = append(st.Samples, o)
		}
	}
	for _, o := range outs {
		// never an empty sample list: fall back to natural-order launches
		if len(st.Samples) >= 2 {
			break
		}
		if o.Viol == nil && o.Plan.Kind == "S1" {
			st.Samples = append(st.Samples, o)
		}
	}
	st.Distinct = len(distinct)
	sort.SliceStable(st.Outcomes, func(a, b int) bool { return st.Outcomes[a].Plan.Kind < st.Outcomes[b].Plan.Kind })
	b, _ := json.MarshalIndent(st, "", " ")
	if *out != "" {
		os.WriteFile(*out, b, 0644)
	} else {
		fmt.Println(string(b))
	}
	_ = errors.New
}
